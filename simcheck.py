#!/venv/bin/python
"""simcheck - decide one SynRBL property by seeded deterministic simulation.

  simcheck.py --property C06 --tier quick|thorough [--seed N] [--nplans N]
  simcheck.py --replay replays/C06-....json

exit 0  property held on everything explored (KNOWN-FINDING lines may be printed)
exit 1  VIOLATION property=<id> replay=<path>   (unlisted violation, minimised, replay verified)
exit 2  harness error / watchdog (never 0, never a VIOLATION)
"""

import argparse
import hashlib
import json
import os
import sys
import time

HERE = os.path.dirname(os.path.abspath(__file__))
PY = "/venv/bin/python"


def _reexec():
    want = {"PYTHONHASHSEED": os.environ.get("SIMCHECK_HASHSEED", "0"), "OMP_NUM_THREADS": "1", "OPENBLAS_NUM_THREADS": "1", "MKL_NUM_THREADS": "1"}
    if all(os.environ.get(k) == v for k, v in want.items()) and os.path.realpath(sys.executable) == os.path.realpath(PY):
        return
    if os.environ.get("SIMCHECK_REEXEC") == "1":
        return
    env = dict(os.environ)
    env.update(want)
    env["SIMCHECK_REEXEC"] = "1"
    env["PYTHONDONTWRITEBYTECODE"] = "1"
    os.execve(PY, [PY, os.path.abspath(__file__)] + sys.argv[1:], env)


_reexec()
sys.path.insert(0, HERE)
sys.dont_write_bytecode = True

from simworld import fanout  # noqa: E402
from simworld.core import HarnessError  # noqa: E402
from checks import dispatch, common  # noqa: E402

LEVELS = {"C19": "exploration"}
# fault kinds / probes a run of the property is expected to reach; a zero is reported as a coverage gap
EXPECT = {
    "C01": ["par_task.raise"],
    "C03": ["mcs_job.timeout", "fmcs.cancel"],
    "C10": ["mcs_job.timeout", "fmcs.cancel"],
    "C11": ["mcs_job.timeout", "mcs_job.hang", "frag_job.timeout", "frag_job.exception", "fmcs.cancel", "fmcs.raise", "fmces.empty", "zombie_step",
            "probe:zombie_wrote_shared_record", "probe:all_conditions_failed", "probe:affected_row_declined", "probe:affected_row_still_solved"],
    "C12": ["crash_write", "cache_hit", "enospc", "eio_replace", "eio_read"],
    "C06": ["probe:par_out_of_order_completion"],
}
COMPONENTS = {
    "real": [
        "synrbl (Balancer, all pipeline stages, CacheManager, Dataset/DataLoader, CLI impute, RuleImputeManager)",
        "pandas", "RDKit (parser, FMCS/RascalMCES search, substructure matching)", "fgutils", "xgboost model",
    ],
    "stub": [
        "joblib.Parallel -> SimParallel (inline vs pickled-process semantics, seeded task order)",
        "multiprocessing.pool.ThreadPool -> SimThreadPool (planned timeouts, zombie threads stepped by baton)",
        "rdFMCS.FindMCS / rdRascalMCES.FindMCES budget decision (search itself real)",
        "time.time in mcs_process -> simulated clock",
        "open/os in SynUtils.batching -> in-memory SimFS with crash/ENOSPC",
        "joblib.load of the scoring model memoised per process",
    ],
}


def load_findings():
    p = os.path.join(HERE, "known_findings.json")
    if not os.path.exists(p):
        return {"findings": [], "fixed": []}
    with open(p) as f:
        return json.load(f)


def match_finding(v, findings):
    for f in findings:
        if f["property"] == v["property"] and f["clause"] == v["clause"] and f["key"] == v["key"]:
            return f
    return None


def minimise(pool, plan, result, sig, budget_s=150, max_evals=120):
    """Greedy delta debugging on the plan while the same violation signature persists."""
    t0 = time.time()
    evals = 0

    def fails(p):
        nonlocal evals
        evals += 1
        r = pool.call("checks.dispatch:execute", p)
        for v in r["violations"]:
            if common.signature(v) == sig:
                return r, v
        return None

    best, best_res = plan, result
    ex = dispatch.explicit_faults(best, best_res)
    if ex is not None:
        got = fails(ex)
        if got:
            best, best_res = ex, got[0]
    improved = True
    while improved and time.time() - t0 < budget_s and evals < max_evals:
        improved = False
        for cand in dispatch.shrink(best):
            if time.time() - t0 > budget_s or evals >= max_evals:
                break
            if common.plan_size(cand) >= common.plan_size(best) and cand.get("config") == best.get("config") and cand.get("source") == best.get("source"):
                continue
            got = fails(cand)
            if got:
                best, best_res = cand, got[0]
                improved = True
                break
    return best, best_res, evals


def write_replay(prop, seed, plan, v, digest, sequence=None):
    os.makedirs(os.path.join(HERE, "replays"), exist_ok=True)
    body = {
        "property": prop,
        "seed": seed,
        "pythonhashseed": os.environ.get("PYTHONHASHSEED"),
        "signature": list(common.signature(v)),
        "detail": v["detail"],
        "digest": digest,
        "plan": plan,
    }
    if sequence is not None:
        # process-global state in the code under test: the violation needs the earlier plans too
        del body["plan"]
        body["sequence"] = sequence
    h = hashlib.sha256(json.dumps(plan if sequence is None else sequence, sort_keys=True).encode()).hexdigest()[:10]
    path = os.path.join(HERE, "replays", "%s-%s-%s.json" % (prop, seed, h))
    with open(path, "w") as f:
        json.dump(body, f, indent=1, sort_keys=True)
    return path


def do_replay(path):
    with open(path) as f:
        body = json.load(f)
    pool = fanout.Pool(1)
    try:
        r = pool.call("checks.dispatch:execute_seq", {"plans": body["sequence"] if "sequence" in body else [body["plan"]]})
    finally:
        pool.close()
    sig = tuple(body["signature"])
    hit = [v for v in r["violations"] if common.signature(v) == sig]
    for v in r["violations"]:
        print("  violation:", v["property"], v["clause"], v["key"], "-", v["detail"][:400])
    print("digest recorded=%s replayed=%s" % (body.get("digest"), r["summary"].get("digest") if isinstance(r.get("summary"), dict) else None))
    if hit:
        print("VIOLATION property=%s replay=%s" % (body["property"], path))
        return 1
    print("replay did not reproduce signature %r" % (sig,))
    return 0


def main():
    ap = argparse.ArgumentParser()
    ap.add_argument("--property")
    ap.add_argument("--tier", default=os.environ.get("VERIF_TIER", "quick"))
    ap.add_argument("--seed", type=int, default=None)
    ap.add_argument("--nplans", type=int, default=None)
    ap.add_argument("--workers", type=int, default=None)
    ap.add_argument("--replay")
    ap.add_argument("--deadline", type=float, default=None, help="seconds after which no new plan is started")
    ap.add_argument("--no-evidence", action="store_true")
    ap.add_argument("--dump-digests", help="write per-plan event-log digests (determinism self-test)")
    args = ap.parse_args()
    if args.replay:
        return do_replay(args.replay)
    prop = args.property
    tier = args.tier if args.tier in ("quick", "thorough") else "quick"
    seed = args.seed if args.seed is not None else int(os.environ.get("VERIF_SEED", "0") or 0)
    t0 = time.time()
    print("simcheck property=%s tier=%s VERIF_SEED=%d PYTHONHASHSEED=%s repo=%s" % (prop, tier, seed, os.environ.get("PYTHONHASHSEED"), os.environ.get("SYNRBL_REPO", "/repo")), flush=True)
    findings = [f for f in load_findings()["findings"] if f["property"] == prop]
    n = args.nplans if args.nplans is not None else dispatch.nplans(prop, tier)
    extras = dispatch.extra_plans(prop, tier, seed)
    for f in findings:
        if f.get("probe"):
            extras.append(f["probe"])
    plans = extras + [dispatch.gen_plan(prop, seed, i, tier) for i in range(n)]
    for k, pl in enumerate(plans):
        pl["_idx"] = k
    deadline = t0 + (args.deadline if args.deadline else (600 if tier == "quick" else 3 * 3600))
    if "VERIF_RUN_WATCHDOG" not in os.environ:
        fanout.RUN_WATCHDOG_S = 400 if tier == "quick" else 1800
        os.environ["VERIF_RUN_WATCHDOG"] = str(fanout.RUN_WATCHDOG_S)  # inherited by the forked workers
    pool = fanout.Pool(args.workers)
    evaluations = 0
    runs = 0
    nontrivial = set()
    sums = []
    samples = []
    known_seen = {}
    new_viol = {}
    notes = {}
    per_plan = {}
    clean = {}  # reaction -> {json(fault-free row): [plan indices]}
    results_prior = {}
    timed_out = []
    try:
        for i, r in pool.map_unordered("checks.dispatch:execute", plans, deadline=deadline):
            r["_plan_index"] = i
            if r.get("harness_timeout"):
                timed_out.append(i)
            results_prior[i] = [k for k in r.get("prior", []) if k is not None]
            evaluations += 1
            runs += r.get("runs", 1)
            if r.get("nontrivial"):
                nontrivial.add(r["nontrivial"])
            for x in r.get("nontrivial_many") or []:
                nontrivial.add(x)
            s = r.get("summary")
            if s:
                sums.extend(s if isinstance(s, list) else [s])
            if args.dump_digests:
                ss = s if isinstance(s, list) else [s]
                per_plan[i] = [[x.get("digest"), x.get("interleave")] for x in ss if x] + [sorted(map(str, (common.signature(v) for v in r["violations"])))]
            if r.get("sample") is not None and (len(samples) < 4 or (r.get("nontrivial") and len(samples) < 8)):
                samples.append(r["sample"])
            for rs, row in r.get("clean_rows") or []:
                clean.setdefault(rs, {}).setdefault(json.dumps(row, sort_keys=True), []).append(i)
            if r.get("note"):
                k = r["note"].split(":")[0][:60]
                notes[k] = notes.get(k, 0) + 1
            for v in r["violations"]:
                f = match_finding(v, findings)
                if f is not None:
                    known_seen.setdefault(f["id"], (f, v))
                else:
                    sig = common.signature(v)
                    if sig not in new_viol:
                        new_viol[sig] = (v.get("subplan") or plans[i], r, v)
            if new_viol and len(new_viol) >= 3:
                break
        # fault-free results of one reaction must agree across plans and worker processes; a deviating
        # execution is re-run with the expectation attached so that the violation comes out of the worker
        if len(new_viol) < 3:
            for rs, variants in sorted(clean.items()):
                if len(variants) < 2:
                    continue
                ranked = sorted(variants.items(), key=lambda kv: (-len(kv[1]), kv[0]))
                major = json.loads(ranked[0][0])
                for _, idxs in ranked[1:]:
                    i = idxs[0]
                    plans[i] = dict(plans[i], expect_clean={rs: major})
                    prior = [plans[k] for k in results_prior.get(i, [])]
                    rr = fanout.Pool(1)
                    try:
                        again = rr.call("checks.dispatch:execute_seq", {"plans": prior + [plans[i]]})
                    finally:
                        rr.close()
                    again["_plan_index"] = i
                    again["prior"] = results_prior.get(i, [])
                    for v in again["violations"]:
                        if match_finding(v, findings) is None and common.signature(v) not in new_viol:
                            new_viol[common.signature(v)] = (plans[i], again, v)
                    break
                if len(new_viol) >= 3:
                    break
        rc = 0
        for fid, (f, v) in sorted(known_seen.items()):
            print("KNOWN-FINDING: property=%s %s [%s] e.g. %s" % (prop, f["what"], fid, v["detail"][:200]))
        replays = []
        for sig, (plan, r, v) in list(new_viol.items())[:3]:
            print("violation found: %s / %s / %s : %s" % (sig[0], sig[1], sig[2], v["detail"][:300]), flush=True)
            fresh = fanout.Pool(1)  # minimise away from whatever state the fan-out workers accumulated
            try:
                best, best_res, evals = minimise(fresh, plan, r, sig)
            finally:
                fresh.close()

            def reproduces(plans):
                rr = fanout.Pool(1)  # a fresh interpreter
                try:
                    again = rr.call("checks.dispatch:execute_seq", {"plans": plans})
                finally:
                    rr.close()
                hit = [x for x in again["violations"] if common.signature(x) == sig]
                return (again, hit[0]) if hit else None

            chosen = None
            orig = plans[r["_plan_index"]]
            prior = [plans[k] for k in r.get("prior", []) if k is not None]
            for label, cand in (("minimised plan", [best]), ("original plan", [orig]), ("plan after the %d plans its worker ran before it" % len(prior), prior + [orig])):
                got = reproduces(cand)
                if got:
                    chosen = (label, cand, got)
                    break
            if chosen is None:
                raise HarnessError("violation %r does not replay in a fresh process, not even after the plans its worker ran before: nondeterminism in the harness" % (sig,))
            label, cand, (again, vv) = chosen
            if len(cand) > 2:  # drop earlier plans that are not needed (each trial in a fresh interpreter)
                pre = cand[:-1]
                trials = 0
                chunk = max(len(pre) // 2, 1)
                while chunk >= 1 and trials < 14 and pre:
                    k = 0
                    shrunk = False
                    while k < len(pre) and trials < 14:
                        trial = pre[:k] + pre[k + chunk:]
                        trials += 1
                        got = reproduces(trial + [cand[-1]])
                        if got:
                            pre, (again, vv) = trial, got
                            shrunk = True
                        else:
                            k += chunk
                    if chunk == 1 and not shrunk:
                        break
                    chunk = max(chunk // 2, 1) if chunk > 1 else (1 if shrunk else 0)
                cand = pre + [cand[-1]]
            digest = again["summary"].get("digest") if isinstance(again.get("summary"), dict) else None
            path = write_replay(prop, seed, cand[0] if len(cand) == 1 else None, vv, digest, sequence=cand if len(cand) > 1 else None)
            print("  minimised in %d evaluations; fresh-process replay reproduces with the %s (%d plan(s), %d bytes)" % (evals, label, len(cand), sum(common.plan_size(c) for c in cand)))
            print("  %s" % vv["detail"][:600])
            print("VIOLATION property=%s replay=%s" % (prop, path), flush=True)
            replays.append(path)
            rc = 1
    finally:
        pool.close()
    wall = time.time() - t0
    if args.dump_digests:
        with open(args.dump_digests, "w") as f:
            json.dump({str(k): v for k, v in sorted(per_plan.items())}, f)
    if not args.no_evidence:
        agg = common.merge_summaries(sums)
        gaps = []
        for k in EXPECT.get(prop, []):
            got = agg["probes"].get(k[6:], 0) if k.startswith("probe:") else agg["fired"].get(k, 0)
            if not got:
                gaps.append(k)
        if gaps:
            print("COVERAGE-GAP: property=%s never reached: %s (not a violation; the seams may no longer match the code)" % (prop, ", ".join(gaps)))
        ev = {
            "property_id": prop,
            "tier": tier,
            "seed": seed,
            "level": LEVELS.get(prop, "exploration"),
            "coverage": {
                "evaluations": runs,
                "plans_executed": evaluations,
                "distinct_nontrivial": len(nontrivial),
                "rule": dispatch.rule(prop),
                "samples": samples[:8],
                "evaluations_are": "simulated runs (C19: operation histories); one plan executes one or more of them",
                "planned": len(plans),
                "runs_per_hour": round(runs / wall * 3600) if wall > 0 else 0,
                "seeds_per_hour": round(evaluations / wall * 3600) if wall > 0 else 0,
                "simulated_seconds": round(agg["simtime"], 3),
                "events_logged": agg["events"],
                "parallel_tasks_scheduled": agg["par_tasks"],
                "faults_fired": agg["fired"],
                "probes": agg["probes"],
                "zombie_threads": agg["zombies"],
                "distinct_interleavings": len(set(agg["interleaves"])),
                "distinct_run_digests": len(set(agg["digests"])),
                "interleaving_measure": "distinct hashes of the sequence (parallel call site, task execution order) + (zombie, line, yield point)",
                "components": COMPONENTS,
                "known_findings_seen": sorted(known_seen),
                "coverage_gaps": gaps,
                "notes": notes,
                "exhaustive": False,
            },
            "assumptions": [
                "PYTHONHASHSEED=0 pinned (third-party fgutils iterates hash-ordered containers)",
                "RDKit parser/sanitiser/canonicaliser/substructure matcher are the oracle's trusted base",
                "process semantics = cloudpickle round trip of task and result; per-worker module globals not modelled",
                "pre-emption points are task boundaries, seam calls and Python line events in the MCS-stage functions",
                "sampling: a clean batch is evidence over the explored plans only",
            ],
            "wall_s": round(wall, 2),
            "violations": len(new_viol),
        }
        os.makedirs(os.path.join(HERE, "evidence"), exist_ok=True)
        with open(os.path.join(HERE, "evidence", "%s.json" % prop), "w") as f:
            json.dump(ev, f, indent=1, sort_keys=True)
    if timed_out and rc == 0:
        # a plan that could not be explored is never reported as "held"
        print("HARNESS-TIMEOUT: %d plan(s) exceeded their time budget and were not explored: %s" % (len(timed_out), timed_out[:10]))
        rc = 2
    print("done: %d plans, %d simulated runs, %d distinct non-trivial, %.1fs, exit %d" % (evaluations, runs, len(nontrivial), wall, rc))
    return rc


if __name__ == "__main__":
    try:
        rc = main()
    except HarnessError as e:
        print("HARNESS-ERROR: %s" % e)
        rc = 2
    except BaseException as e:  # noqa
        import traceback

        traceback.print_exc()
        print("HARNESS-ERROR: %r" % (e,))
        rc = 2
    sys.stdout.flush()
    os._exit(rc)
