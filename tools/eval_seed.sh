#!/bin/bash
# eval_seed.sh <seed-dir containing patch.diff [demo.py]> <name> <mode: confirm|check> [props...]
# Works in a scratch worktree of /repo under /tmp (removed afterwards); never edits /repo.
set -u
seed=$1; name=$2; mode=$3; shift 3
wt=/tmp/eval-$name-$$
git -C /repo worktree add --detach $wt HEAD -q || exit 3
cleanup() { git -C /repo worktree remove --force $wt 2>/dev/null; rm -rf $wt; }
trap cleanup EXIT
cd $wt
if [ "$mode" = confirm ]; then
  if [ -f $seed/demo.py ]; then
    /venv/bin/python $seed/demo.py >/dev/null 2>&1; echo "demo on clean tree: exit $?"
  fi
fi
git apply $seed/patch.diff || { echo "PATCH DOES NOT APPLY"; exit 3; }
if [ "$mode" = confirm ]; then
  if [ -f $seed/demo.py ]; then
    /venv/bin/python $seed/demo.py >/dev/null 2>&1; echo "demo on patched tree: exit $?"
  fi
  /venv/bin/python -m pytest -q -p no:cacheprovider --timeout=900 2>&1 | tail -1
fi
for p in "$@"; do
  out=$(cd /verif && SYNRBL_REPO=$wt timeout 1500 ./simcheck.py --property $p --tier quick --no-evidence 2>&1 | grep -v "WARNING: not removing")
  echo "$out" | grep -E "^(violation found|VIOLATION|HARNESS|done)" | cut -c1-330
  # keep the replay files produced against this scratch copy out of the way
done
