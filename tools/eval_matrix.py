#!/usr/bin/env python3
"""Re-evaluate every seeded change in /verif/seeded against the quick checks named in its meta.json
(scratch worktrees under /tmp, removed afterwards) and record the outcome in meta.json."""
import glob, json, os, re, subprocess, sys
HERE = os.path.dirname(os.path.dirname(os.path.abspath(__file__)))
only = set(sys.argv[1:])
rows = []
for mp in sorted(glob.glob(os.path.join(HERE, "seeded", "*", "meta.json"))):
    meta = json.load(open(mp))
    name = meta["id"]
    if only and name not in only:
        continue
    d = os.path.dirname(mp)
    cl = "/tmp/evallogs/confirm-%s.log" % name
    if os.path.exists(cl) and not (meta["confirmed"].get("result")):
        meta["confirmed"]["result"] = open(cl).read().strip().splitlines()
    det = {}
    for prop in meta["caught_by_quick_checks"]:
        out = subprocess.run([os.path.join(HERE, "tools", "eval_seed.sh"), d, name, "check", prop], capture_output=True, text=True).stdout
        lines = [l[:300] for l in out.splitlines() if l.startswith(("violation found", "VIOLATION", "done", "HARNESS"))]
        caught = any(l.startswith("VIOLATION property=%s" % prop) for l in lines)
        det[prop] = {"caught": caught, "log": lines[:5]}
        rows.append((name, prop, caught))
        print(name, prop, "CAUGHT" if caught else "missed", flush=True)
    meta["detection"] = det
    meta.pop("first_detection_log", None)
    json.dump(meta, open(mp, "w"), indent=1)
print("summary: %d/%d (seed, check) pairs caught" % (sum(1 for r in rows if r[2]), len(rows)))
