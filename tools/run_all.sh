#!/bin/bash
# run every registered check of a tier on /repo, one after the other; print one summary line each
tier=${1:-quick}
cd "$(dirname "$0")/.." || exit 2
rc_all=0
for p in C01 C02 C03 C04 C05 C06 C10 C11 C12 C13 C18 C19; do
  out=$(./simcheck.py --property $p --tier $tier 2>&1 | grep -v "WARNING: not removing")
  rc=$?
  echo "$out" | grep -E "^(VIOLATION|KNOWN-FINDING|HARNESS|done)" | cut -c1-220
  echo "$out" | tail -1 | grep -q "exit 0" || rc_all=1
done
exit $rc_all
