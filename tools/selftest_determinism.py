#!/usr/bin/env python3
"""Determinism self-test: the same VERIF_SEED must give identical per-plan event-log digests in fresh
interpreters, with 16 and with 3 fan-out workers. A pass under another PYTHONHASHSEED is informational
(expected to differ only through the third-party fgutils, DESIGN.md S9)."""
import json, os, subprocess, sys, tempfile

HERE = os.path.dirname(os.path.dirname(os.path.abspath(__file__)))
props = sys.argv[1].split(",") if len(sys.argv) > 1 else ["C05", "C06", "C11", "C12", "C13", "C10"]
n = int(sys.argv[2]) if len(sys.argv) > 2 else 16
seeds = [int(x) for x in (sys.argv[3].split(",") if len(sys.argv) > 3 else ["0", "7"])]
bad = 0
with tempfile.TemporaryDirectory() as d:
    for prop in props:
        for seed in seeds:
            outs = []
            for tag, workers, hs in (("a", 16, "0"), ("b", 16, "0"), ("c", 3, "0"), ("h", 16, "1")):
                path = os.path.join(d, "%s-%s-%s.json" % (prop, seed, tag))
                env = dict(os.environ, SIMCHECK_HASHSEED=hs)
                env.pop("SIMCHECK_REEXEC", None); env.pop("PYTHONHASHSEED", None)
                subprocess.run([os.path.join(HERE, "simcheck.py"), "--property", prop, "--tier", "quick", "--seed", str(seed), "--nplans", str(n),
                                "--workers", str(workers), "--no-evidence", "--dump-digests", path], env=env, stdout=subprocess.DEVNULL, stderr=subprocess.DEVNULL)
                outs.append(json.load(open(path)) if os.path.exists(path) else None)
            a, b, c, h = outs
            same_ab = a is not None and a == b
            same_ac = a is not None and a == c
            diff_h = None if (a is None or h is None) else sum(1 for k in a if a[k] != h.get(k))
            print("%s seed=%d plans=%s  rerun-identical=%s  16-vs-3-workers-identical=%s  differing-plans-under-PYTHONHASHSEED=1: %s (informational)" % (prop, seed, len(a or {}), same_ab, same_ac, diff_h), flush=True)
            if not (same_ab and same_ac):
                bad += 1
                for k in (a or {}):
                    if a[k] != (b or {}).get(k) or a[k] != (c or {}).get(k):
                        print("   first divergence at plan", k); break
print("DETERMINISM", "OK" if not bad else "BROKEN (%d)" % bad)
sys.exit(1 if bad else 0)
