#!/venv/bin/python
"""MANIFEST.setup_cmd: nothing to build; verify the offline environment and that the seams install."""
import os, sys
os.environ.setdefault("PYTHONHASHSEED", "0")
os.environ.setdefault("OMP_NUM_THREADS", "1")
sys.path.insert(0, os.path.dirname(os.path.dirname(os.path.abspath(__file__))))
import cloudpickle, joblib, pandas, rdkit, xgboost  # noqa
from simworld import runner, seams
runner.setup()
need = {"Parallel": 14, "multiprocessing": 2, "rdFMCS": 1, "rdRascalMCES": 1, "time": 1, "open/os": 1}
got = {}
for mod, attr in seams._installed["patched"]:
    got[attr] = got.get(attr, 0) + 1
missing = {k: (got.get(k, 0), v) for k, v in need.items() if got.get(k, 0) < v}
r = runner.run_once({"rows": ["CC(=O)O.CCO>>CC(=O)OCC"], "config": {"n_jobs": 2}, "sim": {"sched_seed": 1}})
ok = r["rows"] and r["rows"][0]["solved"]
print("seams patched:", got, "smoke run solved:", bool(ok))
if missing:
    print("WARNING: fewer seam sites than on the pinned tree:", missing)
sys.exit(0 if ok else 1)
