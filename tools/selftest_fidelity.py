#!/venv/bin/python
"""Stub-fidelity self-test (never the deciding step): fault-free simulated runs (inline and pickled-process
semantics) must give the same rows and statistics as real executions with real joblib (n_jobs=1 and loky
n_jobs=2) and the real ThreadPool; SimFS cache histories must agree with a real temporary directory."""
import json, os, subprocess, sys, tempfile, shutil

HERE = os.path.dirname(os.path.dirname(os.path.abspath(__file__)))
sys.path.insert(0, HERE)
os.environ.setdefault("PYTHONHASHSEED", "0")
os.environ.setdefault("OMP_NUM_THREADS", "1")

REAL = r'''
import json, sys, os
sys.path.insert(0, os.environ.get("SYNRBL_REPO", "/repo"))
sys.path.insert(0, %r)
import logging; logging.disable(logging.CRITICAL)
from rdkit import RDLogger; RDLogger.DisableLog("rdApp.*")
from synrbl import Balancer
from simworld.runner import norm_row
jobs = json.load(open(sys.argv[1]))
out = []
for j in jobs:
    stats = {}
    b = Balancer(n_jobs=j["n_jobs"], batch_size=j["batch_size"], cache=j.get("cache", False), cache_dir=j.get("cache_dir"))
    rows = b.rebalance(j["rows"], output_dict=True, stats=stats)
    out.append({"rows": [norm_row(r) for r in rows], "stats": stats})
json.dump(out, open(sys.argv[2], "w"))
''' % HERE


def main():
    import random
    from checks import common
    from simworld import runner
    n = int(sys.argv[1]) if len(sys.argv) > 1 else 24
    rng = random.Random(12345)
    fast = [it for it in json.load(open(os.path.join(HERE, "corpus", "reactions.json"))) if it["t"] < 0.35]
    jobs = []
    for i in range(n):
        rows = [rng.choice(fast)["rsmi"] for _ in range(rng.randint(1, 5))]
        jobs.append({"rows": rows, "n_jobs": rng.choice([1, 2]), "batch_size": rng.choice([None, 1, 2])})
    tmp = tempfile.mkdtemp(prefix="fidelity_")
    try:
        cdir = os.path.join(tmp, "cache")
        hist = [dict(j, n_jobs=1, cache=True, cache_dir=cdir) for j in jobs[:6]] + [dict(j, n_jobs=1, cache=True, cache_dir=cdir) for j in jobs[:6]]
        json.dump(jobs + hist, open(os.path.join(tmp, "jobs.json"), "w"))
        open(os.path.join(tmp, "real.py"), "w").write(REAL)
        subprocess.run(["/venv/bin/python", os.path.join(tmp, "real.py"), os.path.join(tmp, "jobs.json"), os.path.join(tmp, "out.json")], check=True,
                       stdout=subprocess.DEVNULL, stderr=subprocess.DEVNULL, env=dict(os.environ))
        real = json.load(open(os.path.join(tmp, "out.json")))
    finally:
        shutil.rmtree(tmp, ignore_errors=True)
    runner.setup()
    from simworld import seams
    bad = 0
    for k, j in enumerate(jobs):
        for mode in ("auto", "inline", "process"):
            r = runner.run_once({"rows": j["rows"], "config": {"n_jobs": j["n_jobs"], "batch_size": j["batch_size"]}, "sim": {"sched_seed": k, "par_mode": mode}})
            if r["rows"] != real[k]["rows"] or r["stats"] != real[k]["stats"]:
                bad += 1
                print("MISMATCH job", k, mode, j)
    seams.FS.files.clear(); seams.FS.dirs.clear()
    for k, j in enumerate(hist):
        r = runner.run_once({"rows": j["rows"], "config": {"n_jobs": 1, "batch_size": j["batch_size"], "cache": True}, "sim": {"sched_seed": k}})
        if r["rows"] != real[len(jobs) + k]["rows"] or r["stats"] != real[len(jobs) + k]["stats"]:
            bad += 1
            print("MISMATCH cache history step", k, j)
    print("FIDELITY %s: %d real executions (joblib n_jobs=1 and loky n_jobs=2, real ThreadPool, real cache dir) vs simulated inline/process/auto and SimFS" % ("OK" if not bad else "BROKEN", len(real)))
    return 1 if bad else 0


if __name__ == "__main__":
    sys.exit(main())
