"""Build /verif/corpus/reactions.json once (committed output; not run by the checks).

Source: /repo/Data/Validation_set/*.csv plus hand-written cases. Every candidate is run
alone, fault-free, under the simulator; kept if it is a valid closed-shell row, small, and
its solo run is fast (so the simulated FindMCS never needs RDKit's real 1 s budget).
"""

import csv
import json
import os
import sys
import time

sys.path.insert(0, os.path.dirname(os.path.dirname(os.path.abspath(__file__))))

from simworld import fanout  # noqa: E402

MAX_SOLO_S = 0.45
MAX_HEAVY = 45


def probe(rsmi):
    from simworld import runner, oracles
    from rdkit import Chem

    runner.setup()
    if not oracles.is_valid_row(rsmi):
        return {"rsmi": rsmi, "skip": "invalid"}
    heavy = max(
        sum(Chem.MolFromSmiles(c).GetNumHeavyAtoms() for c in side.split("."))
        for side in rsmi.split(">>")
    )
    if heavy > MAX_HEAVY:
        return {"rsmi": rsmi, "skip": "big"}
    spec = {"rows": [rsmi], "config": {"n_jobs": 1}, "sim": {"sched_seed": 0}}
    runner.run_once(spec)  # warm the memo tables so the timing is the steady-state cost
    t = time.time()
    r = runner.run_once(spec)
    dt = time.time() - t
    if r["exc"] or not r["rows"] or len(r["rows"]) != 1:
        return {"rsmi": rsmi, "skip": "noresult"}
    row = r["rows"][0]
    tags = []
    if row["solved_by"]:
        tags.append(row["solved_by"])
    if not row["solved"]:
        tags.append("declined")
    if oracles.has_atom_map(rsmi):
        tags.append("mapped")
    if "+" in rsmi or "-]" in rsmi:
        tags.append("ionic")
    if "@" in rsmi or "/" in rsmi or "\\" in rsmi:
        tags.append("stereo")
    if row["reaction"] and ("Mn" in row["reaction"] or "[Cr]" in row["reaction"] or "[BH" in row["reaction"] or "[AlH" in row["reaction"] or "[H][H]" in row["reaction"]) and row["reaction"] != row["input_reaction"]:
        tags.append("redox")
    if row["rules"]:
        tags.append("merge-rules")
    cc = oracles.carbon_counts(rsmi)
    if cc[1] > cc[0]:
        tags.append("carbon-surplus")
    return {"rsmi": rsmi, "t": round(dt, 3), "tags": tags, "stats": r["stats"], "heavy": heavy}


HAND = [
    # already balanced: neutral, ionic, zwitterion, heavy elements, isotopes, stereo, mapped
    "CCO>>CCO",
    "CC(=O)O.CCO>>CC(=O)OCC.O",
    "[Na+].[Cl-]>>[Na+].[Cl-]",
    "[NH3+]CC([O-])=O>>NCC(O)=O",
    "[U]>>[U]",
    "[U](F)(F)(F)(F)(F)F>>[U](F)(F)(F)(F)(F)F",
    "[2H]O[2H]>>[2H]O[2H]",
    "C[C@H](N)C(=O)O>>C[C@@H](N)C(=O)O",
    "[CH3:1][OH:2]>>[CH3:1][OH:2]",
    "CCO.CCO>>CCOCC.O",
    "[H][H].C=C>>CC",
    "OO>>OO",
    "CC(=O)Cl.N>>CC(N)=O.Cl",
    "c1ccccc1Br.OB(O)c1ccccc1>>c1ccc(-c2ccccc2)cc1.OB(O)Br",
    # traps: element balanced but charge unbalanced; heavy elements that differ; H only
    "[Fe+2]>>[Fe+3]",
    "[U]>>[Th]",
    "[Th](Cl)(Cl)(Cl)Cl>>[U](Cl)(Cl)(Cl)Cl",
    "[Pu]>>[Am]",
    "C=C>>CC",
    "CC>>C=C",
    "CC(=O)C>>CC(O)C",
    "CC(O)C>>CC(=O)C",
    "CCO>>CC=O",
    "CCO>>CC(=O)O",
    "CC=O>>CC(=O)O",
    "CC(=O)O>>CCO",
    "CC=O>>CCO",
    "CC(=O)OC>>CCO",
    "CC(=O)Cl>>CCO",
    "CC(N)=O>>CCN",
    "OCc1ccccc1>>O=Cc1ccccc1",
    "OCc1ccccc1>>OC(=O)c1ccccc1",
    "O=Cc1ccccc1>>OC(=O)c1ccccc1",
    "OC1CCCCC1>>O=C1CCCCC1",
    "O=C1CCCCC1>>OC1CCCCC1",
    "O=Cc1ccccc1>>OCc1ccccc1",
    # primary alcohol -> acid with water on the reactant side (KMnO4/H2SO4 template)
    "CCO.O>>CC(=O)O",
    "OCc1ccccc1.O>>OC(=O)c1ccccc1",
    "CCCO.O>>CCC(O)=O",
    "OCC1CCCCC1.O>>OC(=O)C1CCCCC1",
    # rule based one sided
    "CC(=O)O.CCO>>CC(=O)OCC",
    "CC(=O)OCC.O>>CC(=O)O",
    "CC(=O)Cl.CN>>CC(=O)NC",
    "CCBr.[OH-]>>CCO",
    "CCBr.[Na+].[OH-]>>CCO",
    "CC(=O)[O-].[Na+]>>CC(=O)O",
    "CCN.Cl>>CC[NH3+]",
    "c1ccccc1>>Brc1ccccc1",
    "CC(=O)OC(C)=O.O>>CC(=O)O",
    # both sided
    "CC(=O)OCC.N>>CC(N)=O",
    "CCOC(=O)C.[OH-]>>CC(=O)[O-]",
    "CCBr.N>>CCN",
    # MCS based
    "COC(C)=O>>OC(C)=O",
    "CC(=O)OC(C)=O.Nc1ccccc1>>CC(=O)Nc1ccccc1",
    "CCOC(=O)c1ccccc1>>OC(=O)c1ccccc1",
    "CC(C)(C)OC(=O)NCc1ccccc1>>NCc1ccccc1",
    "COc1ccccc1>>Oc1ccccc1",
    "CCOC(=O)CC(=O)OCC>>OC(=O)CC(=O)O",
    "CS(=O)(=O)OCCc1ccccc1.[N-]=[N+]=[N-]>>[N-]=[N+]=NCCc1ccccc1",
    "O=C(OCc1ccccc1)NCC>>NCC",
    "CC(=O)Nc1ccccc1>>Nc1ccccc1",
    "c1ccc(COc2ccccc2)cc1>>Oc1ccccc1",
    "CCOC(=O)C=C.c1ccccc1I>>CCOC(=O)C=Cc1ccccc1",
    "C[Si](C)(C)OCCc1ccccc1>>OCCc1ccccc1",
    # carbon surplus on the product side (always declined)
    "CCO>>CCOC(C)=O",
    "c1ccccc1>>Cc1ccccc1",
    "CC(=O)O>>CC(=O)OCC",
    # element balanced (or nearly) but the net charge differs, both sides charged
    "[Cu+]>>[Cu+2]",
    "[Fe+2].[Cl-]>>[Fe+3].[Cl-]",
    "[Ce+4].[Fe+2]>>[Ce+3].[Fe+2]",
    "[O-]C(=O)CC(=O)O>>[O-]C(=O)CC(=O)[O-]",
    "[NH4+]>>N",
    "[Na+].[Cl-]>>[Na].[Cl-]",
    "C[N+](C)(C)C.[OH-]>>C[N+](C)(C)C",
    "[Fe+3].[Fe+3]>>[Fe+2].[Fe+2]",
    # nothing in common under any search condition
    "C>>N",
    "CCBr>>N",
    "CCC>>OO",
    "C1CC1>>[Na+].[Cl-]",
    "CCCl>>S",
    # marker substrings inside given molecules / explicit H spellings
    "[H][H].CC=O>>CCO",
    "[H]C([H])([H])O.CC(=O)O>>COC(C)=O",
    "OO.CSC>>CS(C)=O",
    "CC.[H][H]>>CC",
    "C.[O-][O+]=O>>C=O",
    "CCO.[OH-]>>CC[O-]",
    "O=C=O.[OH-]>>OC([O-])=O",
    "[Li]CCCC.O>>CCCC",
    "Cl.CN>>C[NH3+].[Cl-]",
    # given molecules whose text starts with a marker the pipeline uses ('OO', '[H]') right after a dot
    "CCBr.OOC(C)(C)C>>CCO.OOC(C)(C)C",
    "CC(=O)Cl.CN.OOC>>CC(=O)NC.OOC",
    "CCBr.[H]C(=O)O>>CCO.[H]C(=O)O",
    "CC(=O)O.CCO.[H]C([H])=O>>CC(=O)OCC.[H]C([H])=O",
    "CCO.OOCC>>CC=O.OOCC",
    "CC=O.OOC(C)=O>>CC(=O)O.OOC(C)=O",
    "CC(=O)OC.[H]C#N>>CC(=O)O.[H]C#N",
    "C=C.[H]OO[H]>>CC.[H]OO[H]",
    # given molecules in a form the tautomer standardiser would rewrite (enol, gem-diol, hemiacetal)
    "COC(=O)C=C(O)C>>OC(=O)C=C(O)C",
    "CCOC(=O)CC(O)(O)C>>OC(=O)CC(O)(O)C",
    "COC(=O)c1ccccc1C(O)OC>>OC(=O)c1ccccc1C(O)OC",
    "C=C(O)CCOC(C)=O>>C=C(O)CCO",
    "CC(=O)OCC(O)(O)C(F)(F)F>>OCC(O)(O)C(F)(F)F",
    "CC(=O)OCC=CO>>OCC=CO",
    "CC(=O)Nc1ccc(C(O)O)cc1>>Nc1ccc(C(O)O)cc1",
    "COC(=O)CC(O)OCC>>OC(=O)CC(O)OCC",
    # two oxidant / reductant equivalents in one reaction
    "OCCCO>>O=CCC=O",
    "OCc1ccc(CO)cc1>>O=Cc1ccc(C=O)cc1",
    "CC(=O)CC(C)=O>>CC(O)CC(C)O",
    "OCCCCO>>O=CCCC=O",
    "CC(O)CC(C)O>>CC(=O)CC(C)=O",
    "O=CCCC=O>>OCCCCO",
    "OCCO>>O=CC=O",
    # dummy atoms, isotopes, bare protons
    "[*][H]>>[H+]",
    "C[*]>>C[*]",
    "[*]CC(=O)O.CO>>[*]CC(=O)OC",
    "[*]c1ccccc1Br>>[*]c1ccccc1",
    "[*]O.[*]>>[*]O[*]",
    "[2H]C([2H])([2H])O.CC(=O)O>>CC(=O)OC([2H])([2H])[2H]",
    "[13CH3]O.CC(=O)O>>CC(=O)O[13CH3].O",
    "[H+].[OH-]>>O",
    "[H+].CC(=O)[O-]>>CC(=O)O",
    "[13CH3]I.[OH-]>>[13CH3]O",
    "[2H]O[2H].CC(=O)Cl>>CC(=O)O[2H]",
    "[*]C(=O)OC>>[*]C(=O)O",
    # product-side carbon surplus where the extra carbon is aromatic
    "Nc1ccccc1O>>c1nc2ccccc2o1",
    "c1ccccc1>>c1ccc2ccccc2c1",
    "Oc1ccccc1>>Oc1ccc2ccccc2c1",
    "Nc1ccccc1S>>c1nc2ccccc2s1.O",
    "NC(=O)c1ccccc1N>>O=c1[nH]cnc2ccccc12",
    "Nc1ccccc1O>>c1nc2ccccc2o1.O.O",
    "Nc1ccccc1S>>c1nc2ccccc2s1.O.O",
    "Nc1ccc(C)cc1N>>Cc1ccc2[nH]cnc2c1.O.O",
    "NC(=O)c1ccccc1N>>O=c1[nH]cnc2ccccc12.O.O",
    # peracid oxidations: reagent and product share a single oxygen
    "CC(=O)OO.C=C>>C1CO1",
    "CC(=O)OO.CSC>>CS(C)=O",
    "CC(=O)OO.c1ccncc1>>[O-][n+]1ccccc1",
    "O=C(OO)c1cccc(Cl)c1.C1=CCCCC1>>C1CCC2OC2C1",
    "O=C(OO)c1cccc(Cl)c1.CN(C)C>>C[N+](C)(C)[O-]",
    # isotope labels that are lost or moved
    "[2H]C([2H])([2H])C([2H])([2H])[2H]>>[2H]C([2H])=C([2H])[2H]",
    "[2H]C([2H])([2H])O[2H]>>[2H]C([2H])=O",
    "[3H]C(C)=O.O>>CC=O.O[3H]",
    "[2H]c1ccccc1.BrBr>>Brc1ccccc1.[2H]Br",
    "C[13C](=O)O[2H].CO>>C[13C](=O)OC",
    # pairs with the same reactants and search result but different given products
    "COC(=O)[C@H](C)N>>OC(=O)[C@H](C)N",
    "COC(=O)[C@H](C)N>>OC(=O)[C@@H](C)N",
    "CCOC(=O)c1ccccc1>>OC(=O)c1ccccc1",
    "CCOC(=O)c1ccccc1>>[O-]C(=O)c1ccccc1",
    "CC(=O)OC/C=C/C>>OC/C=C/C",
    "CC(=O)OC/C=C/C>>OC/C=C\\C",
    "CC(=O)N[C@@H](C)c1ccccc1>>N[C@@H](C)c1ccccc1",
    "CC(=O)N[C@@H](C)c1ccccc1>>N[C@H](C)c1ccccc1",
    # repeated molecules reaching the MCS stage; both-sided imbalance with product-side carbon surplus
    "COC(C)=O.COC(C)=O>>CC(=O)CC(=O)OC",
    "CCOC(=O)c1ccccc1.CCOC(=O)c1ccccc1>>OC(=O)c1ccccc1.OC(=O)c1ccccc1",
    "CC(=O)OC.CC(=O)OC.CC(=O)OC>>CC(=O)O.CC(=O)O.CC(=O)O",
    "COc1ccccc1.COc1ccccc1>>Oc1ccccc1.Oc1ccccc1",
    "CCBr.N>>CCN(CC)CC",
    "CI.Nc1ccccc1>>CN(C)c1ccccc1",
    "ClCc1ccccc1.NC>>CN(Cc1ccccc1)Cc1ccccc1",
    "CCCl.CS>>CCS(C)(CC)",
    # repeated molecules
    "CC(=O)O.CC(=O)O>>CC(=O)OC(C)=O",
    "CCO.CCO.CCO>>CCOCC",
    "C=O.C=O.C=O>>C1OCOCO1",
]


def main():
    out_path = os.path.join(os.path.dirname(os.path.dirname(os.path.abspath(__file__))), "corpus", "reactions.json")
    cands = []
    seen = set()
    vdir = "/repo/Data/Validation_set"
    with open(os.path.join(vdir, "validation_set.csv")) as f:
        for row in csv.DictReader(f):
            for col in ("reaction",):
                s = row.get(col)
                if s and s not in seen and len(s) < 600:
                    seen.add(s)
                    cands.append(s)
    # deterministic subsample: every k-th
    step = max(len(cands) // 1700, 1)
    cands = cands[::step]
    # also unmapped variants of some (most users feed plain SMILES)
    allc = HAND + cands
    print("candidates", len(allc), flush=True)
    pool = fanout.Pool()
    res = [None] * len(allc)
    n = 0
    for i, r in pool.map_unordered("tools.build_corpus:probe", allc):
        res[i] = r
        n += 1
        if n % 200 == 0:
            print(n, flush=True)
    pool.close()
    keep = []
    per_tag = {}
    for i, r in enumerate(res):
        if r is None or r.get("skip"):
            continue
        hand = i < len(HAND)
        if not hand and r["t"] > (1.2 if "mcs-based" in r["tags"] else MAX_SOLO_S):
            continue
        primary = (r["tags"] or ["?"])[0] + ("/declined" if "declined" in r["tags"] else "")
        cap = {"rule-based": 90, "mcs-based": 150, "input-balanced": 40, "declined/declined": 60, "mcs-based/declined": 40}.get(primary, 40)
        bonus = any(t in r["tags"] for t in ("redox", "carbon-surplus", "ionic"))
        if hand or per_tag.get(primary, 0) < cap or (bonus and per_tag.get(primary + "+", 0) < 40):
            if not hand:
                if per_tag.get(primary, 0) < cap:
                    per_tag[primary] = per_tag.get(primary, 0) + 1
                else:
                    per_tag[primary + "+"] = per_tag.get(primary + "+", 0) + 1
            keep.append({"rsmi": r["rsmi"], "tags": r["tags"] + (["hand"] if hand else []), "t": r["t"]})
    os.makedirs(os.path.dirname(out_path), exist_ok=True)
    with open(out_path, "w") as f:
        json.dump(keep, f, indent=0)
    print("kept", len(keep), per_tag)
    skipped = {}
    for r in res:
        if r and r.get("skip"):
            skipped[r["skip"]] = skipped.get(r["skip"], 0) + 1
    print("skipped", skipped)
    slow = [r["rsmi"] for r in res[: len(HAND)] if r and not r.get("skip") and r["t"] > MAX_SOLO_S]
    print("slow hand rows", slow)
    print("hand skipped", [r for r in res[: len(HAND)] if r and r.get("skip")])


if __name__ == "__main__":
    main()
