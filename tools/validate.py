#!/usr/bin/env python3
"""Validate MANIFEST.json and every evidence file against the schemas (uses python3-vt's jsonschema)."""
import json, glob, sys
import jsonschema
ok = True
m = json.load(open('/verif/MANIFEST.json'))
jsonschema.validate(m, json.load(open('/root/.vp/MANIFEST.schema.json')))
print("MANIFEST ok:", len(m["checks"]), "checks")
es = json.load(open('/root/.vp/EVIDENCE.schema.json'))
for p in sorted(glob.glob('/verif/evidence/*.json')):
    try:
        jsonschema.validate(json.load(open(p)), es); print("ok", p)
    except Exception as e:
        ok = False; print("INVALID", p, str(e)[:300])
sys.exit(0 if ok else 1)
