"""Build /verif/corpus/validation_pool.json: every shipped validation-set reaction that is a valid
closed-shell row, small enough, and whose solo fault-free simulated run is fast (thorough tiers draw from it)."""
import csv, json, os, sys, time
sys.path.insert(0, os.path.dirname(os.path.dirname(os.path.abspath(__file__))))
from simworld import fanout


def probe(rsmi):
    from simworld import runner, oracles
    from rdkit import Chem
    runner.setup()
    if not oracles.is_valid_row(rsmi):
        return None
    heavy = max(sum(Chem.MolFromSmiles(c).GetNumHeavyAtoms() for c in side.split(".")) for side in rsmi.split(">>"))
    if heavy > 50:
        return None
    t = time.time()
    r = runner.run_once({"rows": [rsmi], "config": {"n_jobs": 1}, "sim": {"sched_seed": 0}})
    dt = time.time() - t
    if r["exc"] or not r["rows"] or len(r["rows"]) != 1 or dt > 2.5:
        return None
    row = r["rows"][0]
    return {"rsmi": rsmi, "t": round(dt, 2), "by": row["solved_by"], "solved": row["solved"]}


if __name__ == "__main__":
    rows, seen = [], set()
    with open("/repo/Data/Validation_set/validation_set.csv") as f:
        for row in csv.DictReader(f):
            s = row["reaction"]
            if s and s not in seen and len(s) < 700:
                seen.add(s); rows.append(s)
    pool = fanout.Pool()
    keep = []
    for i, r in pool.map_unordered("tools.build_pool:probe", rows):
        if r:
            keep.append(r)
    pool.close()
    keep.sort(key=lambda x: x["rsmi"])
    out = os.path.join(os.path.dirname(os.path.dirname(os.path.abspath(__file__))), "corpus", "validation_pool.json")
    json.dump(keep, open(out, "w"), indent=0)
    print("pool", len(keep), "of", len(rows))
