#!/usr/bin/env python3
"""Run the repository's pinned test suite (guard off) and compare with BASELINE.json stable_pass."""
import json, os, subprocess, sys, tempfile
import xml.etree.ElementTree as ET

repo = os.environ.get("SYNRBL_REPO", "/repo")
base = json.load(open("/root/.vp/BASELINE.json"))
with tempfile.TemporaryDirectory() as d:
    x = os.path.join(d, "j.xml")
    env = dict(os.environ)
    env.pop("SYNRBL_VERIF", None)
    subprocess.run(["/venv/bin/python", "-m", "pytest", "-ra", "-q", "-p", "no:cacheprovider", "--timeout=900",
                    "--continue-on-collection-errors", "--junitxml=" + x], cwd=repo, env=env,
                   stdout=subprocess.DEVNULL, stderr=subprocess.DEVNULL)
    passed = set()
    for tc in ET.parse(x).getroot().iter("testcase"):
        if not any(c.tag in ("failure", "error", "skipped") for c in tc):
            passed.add("%s::%s" % (tc.get("classname"), tc.get("name")))
missing = [t for t in base["stable_pass"] if t not in passed]
print("baseline stable_pass: %d, passed now: %d, missing: %d" % (len(base["stable_pass"]), len(passed), len(missing)))
for t in missing:
    print("  MISSING", t)
sys.exit(1 if missing else 0)
