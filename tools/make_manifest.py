#!/usr/bin/env python3
"""Write /verif/MANIFEST.json (kept as a generator so the per-property texts live in one place)."""
import json
import os

HERE = os.path.dirname(os.path.dirname(os.path.abspath(__file__)))

CLAIMED = {
    "C01": ("5/C01", "run invariant under seeded simulation",
            "Every row of every simulated rebalance run (swarm of workloads, batch sizes, inline vs pickled-process worker semantics, task schedules, thresholds, clock jumps, MCS-stage faults, worker failures at drawn Parallel calls, failures inside single composition counts) is checked against an independent element/charge balance oracle; the input dimension is the committed corpus plus (thorough) the shipped validation set, i.e. sampling."),
    "C02": ("5/C02", "run invariant under seeded simulation",
            "Molecule-multiset containment oracle (independent atom-map stripping and canonicalisation) on every row of the same kind of simulated runs, incl. revert paths after injected MCS faults, equivalent respellings (random order, kekulised, atom-mapped, explicit H), marker-prefixed and placeholder-spelled given molecules; little schedule content beyond the id/position plumbing, said plainly."),
    "C03": ("5/C03", "run invariant under seeded simulation with fault injection",
            "Declined rows must be the untouched input with a reason, for every stage combination the simulator can produce: workload mix x batching x worker semantics x injected MCS-stage faults that interrupt the pipeline after in-place edits."),
    "C04": ("5/C04", "run invariant + corpus sweep under seeded simulation",
            "Balanced reactions (corpus, reversals, multiples, unions; thorough: the shipped curated balanced reactions) placed between rows that every stage edits, under all batchings/worker semantics; verdict compared with an independent balance oracle in both directions."),
    "C05": ("5/C05", "seeded simulation with poison-row data faults",
            "Malformed rows are injected as data faults at drawn positions of every batch layout (incl. whole malformed batches aligned to the batch size, batch size given through the constructor and/or per call) and input form (list, dict, CSV, JSON, CLI with pass-through columns); row count, order, per-row identity against solo reference rows and CLI pass-through alignment are checked (duplicates, empty records, pandas index columns, quoted / multi-line cells, heterogeneous records)."),
    "C06": ("5/C06", "seeded simulation of batch contexts vs solo reference",
            "Permutations x partitions x worker counts (inline vs pickled-process semantics per call site, per-worker module state) x task completion orders x earlier calls on the same Balancer, each row compared with the reaction's solo row and statistics with the sum of solo statistics; plus plans with one fixed set of injected MCS-stage failures in every context, compared across contexts."),
    "C10": ("5/C10", "seeded simulation + enumerated failed-job patterns with outside taps",
            "Search results are tapped from outside and checked for molecule-list identity, substructure containment, largest-condition selection and id attribution under mixed batches (up to 9 MCS rows), permutations, worker semantics, RDKit budget exhaustion inside the jobs and every failed/ok pattern of the condition tables for small batches."),
    "C11": ("5/C11", "deterministic simulation with fault injection (timeouts, zombie threads, RDKit budget exhaustion)",
            "Timeouts/hangs/exceptions injected into arbitrary subsets of search and fragment jobs and RDKit calls; timed-out jobs continue as real threads stepped line by line by the scheduler while the pipeline reads the shared record; each faulty run is judged row by row against its fault-free twin, and the fault-free run after the faults stopped must equal the run on pristine process state; all job subsets of small batches are enumerated."),
    "C12": ("5/C12", "deterministic simulation of run histories over a simulated cache directory with crash-point enumeration",
            "Histories of runs on an in-memory file system with kills at byte N / before file creation, ENOSPC, EIO on read / replace / open (also placed on certain cache hits), lost files and configuration changes between runs (threshold, reaction column, atom-map removal, selected columns; through the constructor or by attribute assignment); every completed run is compared with the same run uncached; crash points are byte offsets, write()-call boundaries and file-system operation boundaries (open/close/rename); thorough enumerates all of them for fixed runs."),
    "C13": ("5/C13", "configuration sweep on a frozen simulated schedule",
            "Same plan (rows, batching, schedule, faults) re-run with only the threshold changed, at 0, 1, every observed confidence, its float neighbours and +-0.001; boundary, independence of other rows and monotonicity are relations between those runs; duplicates in a batch and failures of the scoring step are injected too."),
    "C18": ("5/C18", "run invariant under seeded simulation",
            "Statistics-vs-rows relations on every simulated run incl. batching, thresholds (also equal to the run's own confidences), faulted MCS stages, malformed rows, failed batches and CLI runs whose .stats file is parsed back."),
    "C19": ("5/C19", "history search against a reference model (exhaustive short + seeded long)",
            "All operation histories up to length 4 (quick) / 5 (thorough) from the empty database over a 19-letter alphabet plus all letter triples with the database persisted and reopened between edits (deep copy / save_database+load_database) plus seeded long histories from the shipped rule files, compared with a list model after every step; no fault kind applies to this in-memory object."),
}
NOTE = ("Sampling, not proof. Trusted: RDKit parser/sanitiser/canonicaliser/substructure matcher (oracles), cloudpickle round trip as the model of "
        "loky process semantics, CPython sys.monitoring LINE events as pre-emption points, PYTHONHASHSEED pinned to 0 (fgutils is hash-order dependent). "
        "Real code: all of synrbl, pandas, RDKit, fgutils, xgboost model. Stubs: joblib.Parallel, ThreadPool, FindMCS/FindMCES budget decision, "
        "time.time in mcs_process, open/os in SynUtils.batching.")
NA = {
    "C07": "pure function of a SMILES string / of two composition dicts: no schedule, clock, fault or history for a simulator to vary (input generation only)",
    "C08": "SyntheticRuleMatcher.match is a pure depth-first search over (imbalance vector, static rule table): no nondeterminism or fault surface",
    "C09": "merge(CompoundSet) is a pure function of the fragment set and static rule JSONs; quantifier is over molecules and bonds only",
    "C14": "metamorphic relation between equivalent input spellings: no schedule/fault/history dimension (batch-order analogue is C06)",
    "C15": "remove_atom_mapping is two regex substitutions on a string: pure function (its system-level consequence is seen by the C02 oracle)",
    "C16": "is_functional_group / pattern_match are pure recursive graph matching over molecules and atom numberings",
    "C17": "normalize_smiles / wc_similarity are pure string and fingerprint functions; the benchmark command only reads a file and counts",
    "C20": "MoleculeStandardizer.__call__ is a function of one SMILES string: no schedule, clock, fault or history (hash-seed sensitivity is an environment issue, DESIGN section 9)",
}

checks = []
for pid, (ref, tech, text) in CLAIMED.items():
    checks.append({
        "property_id": pid,
        "quick_cmd": "./simcheck.py --property %s --tier quick" % pid,
        "thorough_cmd": "./simcheck.py --property %s --tier thorough" % pid,
        "evidence_file": "/verif/evidence/%s.json" % pid,
        "replay_cmd_template": "./simcheck.py --replay {path}",
        "engine": "simworld",
        "level_claimed": {"category": "exploration", "text": text, "design_ref": "DESIGN.md section " + ref},
        "level_note": NOTE,
        "technique": "deterministic simulation with fault injection: " + tech,
    })
m = {
    "version": 1,
    "setup_cmd": "/venv/bin/python /verif/tools/setup_check.py",
    "hooks": {
        "guard": "SYNRBL_VERIF",
        "enable": "no hook in /repo: every seam is taken from outside by rebinding module attributes (simworld/seams.py); the guard variable is unused by /repo",
        "baseline_off_cmd": "cd /repo && /venv/bin/python -m pytest -ra -q -p no:cacheprovider --timeout=900 --continue-on-collection-errors",
        "source_commits": [],
        "add_only": True,
    },
    "engines": [{
        "name": "simworld",
        "path": "/verif/simworld",
        "serves_properties": sorted(CLAIMED),
        "kind_free_text": "in-process deterministic simulator for SynRBL's batch pipeline: SimParallel, SimThreadPool with baton-stepped zombie threads, RDKit budget shims, simulated clock, SimFS; stateless-hash scheduler; plan-level delta debugging; 16-process fan-out",
    }],
    "checks": checks,
    "not_applicable": [{"property_id": k, "reason": v} for k, v in NA.items()],
    "notes": "Checks re-exec themselves under /venv/bin/python with PYTHONHASHSEED=0 OMP_NUM_THREADS=1 and import synrbl from /repo's working tree (SYNRBL_REPO overrides for scratch copies). Known findings and fixed defects: /verif/known_findings.json. Exit 2 = harness error.",
}
with open(os.path.join(HERE, "MANIFEST.json"), "w") as f:
    json.dump(m, f, indent=1)
print("wrote MANIFEST.json with %d checks, %d not applicable" % (len(checks), len(NA)))
