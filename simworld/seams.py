"""The seams: simulator-owned replacements for every source of nondeterminism.

S1 joblib.Parallel            -> SimParallel      (inline vs pickled-process semantics, task order)
S2 multiprocessing ThreadPool -> SimThreadPool    (timeouts as planned faults, zombie threads by baton)
S3 rdFMCS / rdRascalMCES      -> budget shims     (real search, simulated cancellation/failure)
S4 time.time in mcs_process   -> simulated clock
S5 open/os in batching        -> SimFS            (in-memory cache dir, crash / ENOSPC at byte N)

All are installed by rebinding module attributes from outside; /repo is not edited.
With `Sim.current is None` every seam behaves like the thing it replaces.
"""

import builtins
import errno
import importlib
import io
import multiprocessing as _real_mp
import multiprocessing.pool as _real_mp_pool
import os as _real_os
import pkgutil
import sys
import threading
import time as _real_time
import types

import cloudpickle
import joblib as _real_joblib

from .core import Sim, SimCrash, HarnessError, H, unit
from . import procstate

_RealParallel = _real_joblib.Parallel
SIMFS_ROOT = "/simfs"


# =========================================================================================
# S1  SimParallel
# =========================================================================================
class SimParallel:
    def __init__(self, n_jobs=None, verbose=0, return_as="list", **kw):
        self.n_jobs = n_jobs
        self.verbose = verbose
        self.return_as = return_as
        self.kw = kw

    def _effective(self, sim):
        n = self.n_jobs
        if n is None:
            return 1
        n = int(n)
        if n == 0:
            raise ValueError("n_jobs == 0 in Parallel has no meaning")
        if n < 0:
            n = max(sim.cpu_count + 1 + n, 1)
        return n

    def __call__(self, iterable):
        sim = Sim.current
        if sim is None:
            return _RealParallel(
                n_jobs=self.n_jobs,
                verbose=self.verbose,
                return_as=self.return_as,
                **self.kw,
            )(iterable)
        k = self._effective(sim)
        site = sim.par_calls
        sim.par_calls += 1
        mode = sim.par_mode
        if mode == "auto":
            mode = "inline" if k == 1 else "process"
        if sim.in_process_task:  # nested call inside a worker: joblib runs it sequentially
            mode = "inline"
        if mode == "inline":
            gen = self._inline(sim, iterable, site)
        else:
            gen = self._process(sim, iterable, site, k)
        if self.return_as == "list":
            return list(gen)
        return gen

    def _inline(self, sim, iterable, site):
        i = 0
        for func, args, kwargs in iterable:
            sim.sched_point(("par", site, i))
            f = sim.explicit.get(sim.fault_label("par_task", (site, i))) if sim.explicit else None
            if f is not None:
                sim.fire(f, None)
                raise RuntimeError("simulated worker failure in Parallel call %d task %d" % (site, i))
            r = func(*args, **kwargs)
            sim.par_tasks += 1
            sim.advance(sim.duration(("par", site)))
            i += 1
            yield r

    def _process(self, sim, iterable, site, k):
        blobs = [cloudpickle.dumps(t) for t in iterable]  # dispatch-time snapshot
        n = len(blobs)
        inflight = list(range(min(k, n)))
        nxt = len(inflight)
        results = {}
        next_yield = 0
        order = []
        while inflight:
            j = sim.choice(("parsched", site), len(inflight))
            idx = inflight.pop(j)
            order.append(idx)
            sim.sched_point(("par", site, idx))
            f = sim.explicit.get(sim.fault_label("par_task", (site, idx))) if sim.explicit else None
            if f is not None:
                sim.fire(f, None)
                raise RuntimeError("simulated worker failure in Parallel call %d task %d" % (site, idx))
            mark = len(sim.zombies)
            sim.in_process_task += 1
            if getattr(sim, "pool_size", None) != k:
                # loky resizes its reusable executor when n_jobs changes between calls: workers are
                # replaced, and with them the module state they had accumulated
                if getattr(sim, "pool_size", None) is not None and getattr(sim, "worker_states", None):
                    for wk in list(sim.worker_states):
                        if sim.choice(("resize", site), 2):
                            del sim.worker_states[wk]
                sim.pool_size = k
            worker = sim.choice(("worker", site), min(k, n))
            try:
                # the task runs on the module-level state of its worker process, not the parent's
                with procstate.WorkerContext(sim, worker):
                    func, args, kwargs = cloudpickle.loads(blobs[idx])
                    try:
                        r = func(*args, **kwargs)
                        rblob = cloudpickle.dumps(r)  # snapshot shipped back to the parent
                    finally:
                        # the worker process' threads are invisible to the parent from here on
                        sim.abort_zombies(only=sim.zombies[mark:])
            finally:
                sim.in_process_task -= 1
            sim.par_tasks += 1
            sim.advance(sim.duration(("par", site)) / k)
            if nxt < n:
                inflight.append(nxt)
                nxt += 1
            if self.return_as == "generator_unordered":
                yield cloudpickle.loads(rblob)
                continue
            results[idx] = rblob
            while next_yield in results:
                yield cloudpickle.loads(results.pop(next_yield))
                next_yield += 1
        if order != sorted(order):
            sim.probes["par_out_of_order_completion"] += 1
        sim.note_interleave("par", site, tuple(order))


# =========================================================================================
# S2  SimThreadPool + zombie threads (baton passing at sys.monitoring LINE events)
# =========================================================================================
class JobCtx:
    def __init__(self, site, key, rxn_keys, row=None):
        self.site = site
        self.key = key
        self.rxn_keys = rxn_keys
        self.row = row
        self.calls = {}

    def next_call(self, kind):
        k = self.calls.get(kind, 0)
        self.calls[kind] = k + 1
        return k


class Zombie:
    """A timed-out job that keeps running in a real thread, one traced line at a time."""

    WAIT = 120.0

    def __init__(self, sim, func, args, kwds, ctx, q, shared=None, blocked_by=None):
        self.sim = sim
        self.blocked_by = blocked_by
        self.wake_in = None
        self.on_finish = None
        self.label = sim.fault_label(ctx.site, ctx.key)
        self.ctx = ctx
        self.q = q
        self.shared = shared  # the record the caller already returned (mcs_data)
        self.finished = False
        self.aborted = False
        self.line = None
        self.lines_done = 0
        self._ord = 0
        self._go = threading.Event()
        self._yielded = threading.Event()
        self._abort = False
        self.error = None

        def body():
            threading.current_thread()._sim_zombie = self
            self._go.wait()
            self._go.clear()
            try:
                if not self._abort:
                    sim.tls.job = ctx
                    func(*args, **kwds)
            except SystemExit:
                pass
            except BaseException as e:  # noqa - the thread's own failure is its own business
                self.error = e
            finally:
                self.finished = True
                self._yielded.set()

        self.thread = threading.Thread(target=body, daemon=True, name="sim-zombie")
        self.thread.start()
        sim.zombies.append(self)

    def step_ord(self):
        k = self._ord
        self._ord += 1
        return k

    def park(self, line):
        """Called from the zombie thread at each traced line."""
        if self._abort:
            raise SystemExit
        self.line = line
        self.lines_done += 1
        self._yielded.set()
        self._go.wait()
        self._go.clear()
        if self._abort:
            raise SystemExit

    def _snapshot(self):
        s = self.shared
        if s is None:
            return None
        return (len(s.get("mcs_results", ())), len(s.get("sorted_reactants", ())), s.get("issue"))

    def step(self, where=None):
        if self.finished or self.aborted:
            return
        b = self.blocked_by
        if b is not None and not (b.finished or b.aborted):
            return  # still queued behind the job that occupies the worker
        before = self._snapshot()
        self._yielded.clear()
        self._go.set()
        if not self._yielded.wait(self.WAIT):
            raise HarnessError("zombie thread did not yield within %.0fs" % self.WAIT)
        after = self._snapshot()
        sim = self.sim
        if self.finished and self.on_finish is not None:
            cb, self.on_finish = self.on_finish, None
            try:
                cb(None, self.error) if self.error is not None else cb(None)
            except Exception:
                pass
        sim.fired["zombie_step"] += 1
        sim.event("zstep", self.label, self.line, self.finished)
        sim.note_interleave("z", self.label, self.line, repr(where))
        if before != after:
            sim.probes["zombie_wrote_shared_record"] += 1
            if after[0] > 0 and after[1] == 0:
                sim.probes["zombie_wrote_results_before_reactants"] += 1
            if sim.taps.get("in_largest_condition"):
                sim.probes["zombie_wrote_between_total_and_tiebreak"] += 1
            if before[2] != after[2]:
                sim.probes["zombie_overwrote_issue"] += 1

    def abort(self):
        if self.finished or self.aborted:
            self.aborted = True
            return
        self.aborted = True
        self._abort = True
        self._yielded.clear()
        self._go.set()
        self._yielded.wait(self.WAIT)
        self.thread.join(5.0)


def _cond_sig(kwds):
    return "{}:{}:{}".format(
        kwds.get("method", "MCES"),
        kwds.get("RingMatchesRingOnly", True),
        kwds.get("ignore_bond_order", True),
    )


def _mol_key(mols, smarts=False):
    from rdkit import Chem

    out = []
    for m in mols or []:
        try:
            out.append("None" if m is None else (Chem.MolToSmarts(m) if smarts else Chem.MolToSmiles(m)))
        except Exception:
            out.append("?")
    return ".".join(out)


class SimAsyncResult:
    def __init__(self, func, args, kwds, pool=None):
        self.func = func
        self.args = tuple(args)
        self.kwds = dict(kwds or {})
        self.pool = pool
        self.callback = None
        self.error_callback = None
        self._done = False
        self._value = None

    def _notify(self, value=None, error=None):
        """What the pool's result-handler thread does when a job completes."""
        if self.pool is not None and getattr(self.pool, "terminated", False):
            return
        cb = self.error_callback if error is not None else self.callback
        if cb is not None:
            cb(error if error is not None else value)

    def _classify(self, sim):
        name = getattr(self.func, "__name__", "")
        if name == "single_mcs" and len(self.args) >= 2 and isinstance(self.args[0], dict):
            d = self.args[0]
            rxn = "{}>>{}".format(d.get("reactants"), d.get("products"))
            cond = _cond_sig(self.kwds)
            occ = sim.ordinal(("mcs_job_occ", rxn, cond))  # duplicates of a reaction are separate jobs
            rid = None
            for k in ("id", "R-id"):
                if k in d:
                    rid = str(d[k])
                    break
            row = (sim.batch_no, rid, rxn) if rid is not None and sim.batch_no > 0 else None
            return JobCtx("mcs_job", (rxn, cond, occ), {rxn}, row)
        if name == "find_missing_parts_pairs" and len(self.args) >= 2:
            rk = _mol_key(self.args[0])
            key = (rk, _mol_key(self.args[1], smarts=True))
            rxns = sim.reactants_to_rxn.get(rk)
            return JobCtx("frag_job", key, set(rxns) if rxns else None)
        return None

    def get(self, timeout=None):
        sim = Sim.current
        if sim is None or self._done:
            if not self._done:
                self._value = self.func(*self.args, **self.kwds)
                self._done = True
            return self._value
        self._done = True
        ctx = self._classify(sim)
        if ctx is None:
            self._value = self.func(*self.args, **self.kwds)
            return self._value
        sim.event("job", ctx.site, list(ctx.key))
        pool = self.pool
        if pool is not None and pool.capacity is not None and timeout is not None:
            busy = pool.live_occupants(sim)
            if len(busy) >= pool.capacity:
                # every worker of this pool is still busy with a job whose caller gave up
                z0 = busy[0]
                if z0.q > 0 and unit(sim.seed, "poolwait", z0.label, sim.fault_label(ctx.site, ctx.key)) < 0.5:
                    for _ in range(100000):  # the earlier job finishes while we wait
                        if z0.finished or z0.aborted:
                            break
                        z0.step(("poolwait",))
                else:
                    sim.fire({"site": ctx.site, "kind": "queued_timeout", "key": list(ctx.key)}, set(), record=False)
                    shared = self.args[1] if len(self.args) > 1 and isinstance(self.args[1], dict) else None
                    z = Zombie(sim, self.func, self.args, self.kwds, ctx, z0.q if z0.q > 0 else 0.0, shared, blocked_by=z0)
                    pool.occupants.append(z)
                    sim.advance(float(timeout))
                    raise _real_mp.TimeoutError()
        f = sim.fault_for(ctx.site, ctx.key) if timeout is not None else None
        if f is not None and ctx.site == "mcs_job":
            sim.fire(f, ctx.rxn_keys, row=ctx.row)
            hang = f["kind"] == "hang"
            q = 0.0 if hang else float(f.get("q", sim.zombie_q))
            shared = self.args[1] if isinstance(self.args[1], dict) else None
            z = Zombie(sim, self.func, self.args, self.kwds, ctx, q, shared)
            z.on_finish = self._notify
            if pool is not None:
                pool.occupants.append(z)
            if f.get("wake_in") and not hang:
                z.wake_in = f["wake_in"]
                z.q = 0.0
            if not hang:
                for _ in range(int(f.get("lines", 0))):
                    z.step(("prestep",))
            sim.advance(float(timeout))
            raise _real_mp.TimeoutError()
        if f is not None and ctx.site == "frag_job":
            sim.fire(f, ctx.rxn_keys)
            if f["kind"] == "timeout":
                sim.advance(float(timeout))
                raise _real_mp.TimeoutError()
            raise RuntimeError("simulated failure in fragment analysis")
        prev = sim.job
        sim.job = ctx
        try:
            try:
                self._value = self.func(*self.args, **self.kwds)
            except Exception as e:
                self._notify(error=e)
                raise
            self._notify(value=self._value)
        finally:
            sim.job = prev
            sim.advance(sim.duration(("job", ctx.site)))
        if ctx.site == "mcs_job" and isinstance(self.args[1], dict):
            sr = self.args[1].get("sorted_reactants") or []
            if sr:
                sim.reactants_to_rxn.setdefault(".".join(sr), set()).update(ctx.rxn_keys)
        return self._value

    def ready(self):
        return self._done

    def wait(self, timeout=None):
        return None


class SimThreadPool:
    """ThreadPool whose workers can stay occupied by jobs that timed out for their caller."""

    def __init__(self, processes=None, *a, **kw):
        self.capacity = int(processes) if processes else None
        self.occupants = []
        self.terminated = False

    def live_occupants(self, sim):
        self.occupants = [z for z in self.occupants if z.sim is sim and not z.finished and not z.aborted]
        return self.occupants

    def apply_async(self, func, args=(), kwds=None, callback=None, error_callback=None):
        if self.terminated:
            raise ValueError("Pool not running")
        r = SimAsyncResult(func, args, kwds, pool=self)
        r.callback, r.error_callback = callback, error_callback
        return r

    def apply(self, func, args=(), kwds=None):
        return func(*args, **(kwds or {}))

    def terminate(self):
        # the worker thread cannot be killed, but the pool's result handler stops: callbacks of jobs that
        # are still running never fire
        self.terminated = True

    def close(self):
        pass

    def join(self):
        pass

    def __enter__(self):
        return self

    def __exit__(self, *a):
        self.terminate()
        return False


def _make_module(name, **attrs):
    m = types.ModuleType(name)
    m.__dict__.update(attrs)
    sys.modules[name] = m  # so cloudpickle ships it by reference
    return m


class _DelegatingModule(types.ModuleType):
    def __init__(self, name, real, **over):
        super().__init__(name)
        self.__dict__["_real"] = real
        self.__dict__.update(over)

    def __getattr__(self, item):
        return getattr(self.__dict__["_real"], item)

    def __reduce__(self):
        return (importlib.import_module, (self.__name__,))


_mp_pool_shim = _DelegatingModule("simworld_mp_pool_shim", _real_mp_pool, ThreadPool=SimThreadPool)
sys.modules["simworld_mp_pool_shim"] = _mp_pool_shim
_mp_shim = _DelegatingModule("simworld_mp_shim", _real_mp, pool=_mp_pool_shim)
sys.modules["simworld_mp_shim"] = _mp_shim


# =========================================================================================
# S3  RDKit search-budget shims
# =========================================================================================
class SimMCSResult:
    """MCSResult whose cancellation was decided by the plan, not by the wall clock."""

    def __init__(self, real, canceled=False, smarts=None, natoms=None, nbonds=None):
        self._real = real
        self.canceled = canceled
        self.smartsString = real.smartsString if smarts is None else smarts
        self.numAtoms = real.numAtoms if natoms is None else natoms
        self.numBonds = real.numBonds if nbonds is None else nbonds

    @property
    def queryMol(self):
        from rdkit import Chem

        return Chem.MolFromSmarts(self.smartsString)

    def __getattr__(self, item):
        return getattr(self._real, item)


_fmcs_memo = {}
_fmces_memo = {}
BIG_BUDGET = 60  # seconds; far above anything the pre-screened corpus needs (real budget: 1 s)


def _fmcs_param_sig(p):
    if p is None:
        return None
    b = p.BondCompareParameters
    a = p.AtomCompareParameters
    return (
        bool(b.RingMatchesRingOnly),
        bool(b.CompleteRingsOnly),
        bool(b.MatchFusedRings),
        bool(b.MatchFusedRingsStrict),
        bool(b.MatchStereo),
        bool(a.MatchChiralTag),
        bool(a.MatchFormalCharge),
        bool(a.MatchValences),
        bool(a.RingMatchesRingOnly),
        bool(a.MatchIsotope),
        bool(p.MaximizeBonds),
        float(p.Threshold),
        str(p.BondTyper),
        str(p.AtomTyper),
        str(p.InitialSeed),
    )


def _degrade(real, drop):
    """A genuine but smaller common substructure: peel `drop` terminal atoms."""
    from rdkit import Chem

    q = Chem.MolFromSmarts(real.smartsString) if real.smartsString else None
    if q is None or q.GetNumAtoms() <= drop:
        return SimMCSResult(real, True, "", 0, 0)
    rw = Chem.RWMol(q)
    for _ in range(drop):
        term = [a.GetIdx() for a in rw.GetAtoms() if a.GetDegree() <= 1]
        if not term or rw.GetNumAtoms() <= 1:
            break
        rw.RemoveAtom(max(term))
    return SimMCSResult(real, True, Chem.MolToSmarts(rw), rw.GetNumAtoms(), rw.GetNumBonds())


def make_rdkit_shims():
    from rdkit.Chem import rdFMCS as real_fmcs
    from rdkit.Chem import rdRascalMCES as real_mces

    def FindMCS(mols, *a, **kw):
        sim = Sim.current
        if sim is None:
            return real_fmcs.FindMCS(mols, *a, **kw)
        params = a[0] if a else kw.get("parameters")
        ctx = sim.job
        row = None
        if ctx is not None:
            key = tuple(ctx.key) + (ctx.next_call("fmcs"),)
            rxns = ctx.rxn_keys
            row = ctx.row
        else:
            key = ("nojob", sim.ordinal("fmcs_nojob"))
            rxns = None
        f = sim.fault_for("fmcs", key)
        if f is not None and f["kind"] == "raise":
            sim.fire(f, rxns, row=row)
            raise RuntimeError("simulated RDKit failure in FindMCS")
        mols = list(mols)
        mkey = None
        if isinstance(params, real_fmcs.MCSParameters) and len(a) <= 1 and not (set(kw) - {"parameters"}):
            try:
                mkey = (tuple(m.ToBinary() for m in mols), _fmcs_param_sig(params))
            except Exception:
                mkey = None
        real = _fmcs_memo.get(mkey) if mkey is not None else None
        if real is None:
            if isinstance(params, real_fmcs.MCSParameters):
                old = params.Timeout
                params.Timeout = BIG_BUDGET  # wall clock out of the run; the plan decides budgets
                try:
                    real = real_fmcs.FindMCS(mols, *a, **kw)
                finally:
                    params.Timeout = old
            else:
                kw2 = dict(kw)
                if "timeout" in kw2:
                    kw2["timeout"] = BIG_BUDGET
                real = real_fmcs.FindMCS(mols, *a, **kw2)
            if mkey is not None:
                _fmcs_memo[mkey] = real
        sim.advance(sim.duration(("fmcs",)))
        if f is not None and f["kind"] == "cancel":
            sim.fire(f, rxns, row=row)
            sim.advance(1.0)
            return _degrade(real, int(f.get("drop", 1)))
        return SimMCSResult(real, bool(real.canceled))

    def FindMCES(m1, m2, opts=None, *a, **kw):
        sim = Sim.current
        if sim is None:
            return real_mces.FindMCES(m1, m2, opts, *a, **kw) if opts is not None else real_mces.FindMCES(m1, m2)
        ctx = sim.job
        row = None
        if ctx is not None:
            key = tuple(ctx.key) + (ctx.next_call("fmces"),)
            rxns = ctx.rxn_keys
            row = ctx.row
        else:
            key = ("nojob", sim.ordinal("fmces_nojob"))
            rxns = None
        f = sim.fault_for("fmces", key)
        if f is not None:
            sim.fire(f, rxns, row=row)
            if f["kind"] == "raise":
                raise RuntimeError("simulated RDKit failure in FindMCES")
            sim.advance(1.0)
            return []
        mkey = None
        if opts is not None and not a and not kw:
            try:
                mkey = (
                    m1.ToBinary(),
                    m2.ToBinary(),
                    float(opts.similarityThreshold),
                    bool(opts.singleLargestFrag),
                    bool(opts.returnEmptyMCES),
                    bool(opts.completeAromaticRings),
                    bool(opts.ringMatchesRingOnly),
                    bool(opts.exactConnectionsMatch),
                    int(opts.minFragSize),
                    int(opts.maxFragSeparation),
                    bool(opts.allBestMCESs),
                )
            except Exception:
                mkey = None
        res = _fmces_memo.get(mkey) if mkey is not None else None
        if res is None:
            if opts is not None:
                old = opts.timeout
                opts.timeout = BIG_BUDGET
                try:
                    res = real_mces.FindMCES(m1, m2, opts, *a, **kw)
                finally:
                    opts.timeout = old
            else:
                res = real_mces.FindMCES(m1, m2)
            if mkey is not None:
                _fmces_memo[mkey] = res
        sim.advance(sim.duration(("fmces",)))
        return res

    fmcs = _DelegatingModule("simworld_rdFMCS_shim", real_fmcs, FindMCS=FindMCS)
    mces = _DelegatingModule("simworld_rdRascalMCES_shim", real_mces, FindMCES=FindMCES)
    sys.modules[fmcs.__name__] = fmcs
    sys.modules[mces.__name__] = mces
    return fmcs, mces


# =========================================================================================
# S4  clock
# =========================================================================================
def _sim_time():
    sim = Sim.current
    if sim is None:
        return _real_time.time()
    t = sim.wall()
    sim.probes["clock_reads"] += 1
    return t


_time_shim = _DelegatingModule("simworld_time_shim", _real_time, time=_sim_time)
sys.modules["simworld_time_shim"] = _time_shim


# =========================================================================================
# S5  simulated file system for the cache directory
# =========================================================================================
class SimFS:
    """In-memory files under SIMFS_ROOT; everything else is the real file system."""

    def __init__(self):
        self.files = {}
        self.dirs = set()

    def is_sim(self, path):
        try:
            p = _real_os.path.abspath(_real_os.fspath(path))
        except TypeError:
            return False
        return p == SIMFS_ROOT or p.startswith(SIMFS_ROOT + "/")

    @staticmethod
    def norm(path):
        return _real_os.path.abspath(_real_os.fspath(path))

    def snapshot(self):
        return {k: bytes(v) for k, v in sorted(self.files.items())}


FS = SimFS()


def _fs_eio(name, path):
    """An I/O error that is not a crash: the k-th operation of this kind raises OSError."""
    sim = Sim.current
    if sim is None or not sim.eio or sim.eio[0] != name:
        return
    k = sim.ordinal(("eio", name))
    if k == int(sim.eio[1]):
        sim.fired["eio_" + name] += 1
        sim.event("eio", name, _real_os.path.basename(str(path)), k)
        raise OSError(errno.EIO, "Input/output error (simulated)", str(path))


def _fs_op(name, path):
    """Every mutating file-system operation is a possible crash point: die just before the k-th one."""
    sim = Sim.current
    if sim is None or sim.crash_op is None:
        return
    k = sim.ordinal("fs_op")
    if k == sim.crash_op:
        sim.fired["crash_write"] += 1
        sim.event("crash_before_op", name, _real_os.path.basename(str(path)), k)
        raise SimCrash("killed before file-system operation %d (%s)" % (k, name))


class _SimWriter(io.StringIO):
    def __init__(self, path, keep=False):
        super().__init__()
        self._path = path
        if not (keep and path in FS.files):
            FS.files[path] = b""

    def close(self):
        if not self.closed:
            _fs_op("close", self._path)
        super().close()

    def write(self, s):
        sim = Sim.current
        data = s.encode()
        if sim is not None and sim.crash_wcall is not None:
            k = sim.ordinal("fs_write_call")
            if k == sim.crash_wcall:  # killed between two write() calls (e.g. exactly on a line boundary)
                sim.fired["crash_write"] += 1
                sim.event("crash_before_write_call", _real_os.path.basename(self._path), k)
                raise SimCrash("killed before write() call %d" % k)
        if sim is not None:
            for budget, kind in ((sim.crash_after, "crash"), (sim.enospc_after, "enospc")):
                if budget is not None and sim.bytes_written + len(data) > budget:
                    keep = max(budget - sim.bytes_written, 0)
                    FS.files[self._path] += data[:keep]
                    sim.bytes_written += keep
                    if kind == "crash":
                        sim.fired["crash_write"] += 1
                        sim.event("crash", _real_os.path.basename(self._path), len(FS.files[self._path]))
                        raise SimCrash("killed after %d bytes" % budget)
                    sim.fired["enospc"] += 1
                    sim.event("enospc", _real_os.path.basename(self._path), len(FS.files[self._path]))
                    sim.enospc_after = -1  # the disk stays full
                    raise OSError(errno.ENOSPC, "No space left on device (simulated)")
            sim.bytes_written += len(data)
        FS.files[self._path] += data
        return len(s)


def sim_open(file, mode="r", *a, **kw):
    if not FS.is_sim(file):
        return builtins.open(file, mode, *a, **kw)
    p = FS.norm(file)
    sim = Sim.current
    if "x" in mode and p in FS.files:
        raise FileExistsError(errno.EEXIST, "File exists (simulated)", p)
    if "a" in mode:
        _fs_op("open_append", p)
        w = _SimWriter(p, keep=True)
        return w
    if ("w" in mode or "x" in mode or "a" in mode) and not _os_shim.path.isdir(_real_os.path.dirname(p)):
        raise FileNotFoundError(errno.ENOENT, "No such directory (simulated)", p)
    if "w" in mode or "x" in mode:
        _fs_op("open_write", p)
        _fs_eio("open_write", p)
        if sim is not None and sim.crash_open is not None:
            k = sim.ordinal("open_w")
            if k == sim.crash_open:
                sim.fired["crash_write"] += 1
                sim.event("crash", _real_os.path.basename(p), -1)
                raise SimCrash("killed before the cache file was created")
        if sim is not None and sim.enospc_after is not None and sim.enospc_after < 0:
            raise OSError(errno.ENOSPC, "No space left on device (simulated)")
        if "b" in mode:
            raise HarnessError("binary cache writes are not modelled")
        return _SimWriter(p)
    if p not in FS.files:
        raise FileNotFoundError(errno.ENOENT, "No such file (simulated)", p)
    _fs_eio("read", p)
    if sim is not None:
        sim.probes["cache_file_reads"] += 1
    if "b" in mode:
        return io.BytesIO(FS.files[p])
    return io.StringIO(FS.files[p].decode(errors="replace"))


class _SimPath:
    def __getattr__(self, item):
        return getattr(_real_os.path, item)

    @staticmethod
    def exists(p):
        if FS.is_sim(p):
            p = FS.norm(p)
            return p in FS.files or p in FS.dirs or p == SIMFS_ROOT or any(f.startswith(p + "/") for f in FS.files)
        return _real_os.path.exists(p)

    @staticmethod
    def isfile(p):
        if FS.is_sim(p):
            return FS.norm(p) in FS.files
        return _real_os.path.isfile(p)

    @staticmethod
    def isdir(p):
        if FS.is_sim(p):
            p = FS.norm(p)
            return p in FS.dirs or p == SIMFS_ROOT or any(f.startswith(p + "/") for f in FS.files)
        return _real_os.path.isdir(p)


class _SimOs(types.ModuleType):
    def __init__(self):
        super().__init__("simworld_os_shim")
        self.__dict__["path"] = _SimPath()

    def __getattr__(self, item):
        return getattr(_real_os, item)

    def __reduce__(self):
        return (importlib.import_module, (self.__name__,))

    @staticmethod
    def makedirs(p, mode=0o777, exist_ok=False):
        if FS.is_sim(p):
            p = FS.norm(p)
            if p in FS.dirs and not exist_ok:
                raise FileExistsError(p)
            while p.startswith(SIMFS_ROOT) and p != SIMFS_ROOT:
                FS.dirs.add(p)
                p = _real_os.path.dirname(p)
            return
        return _real_os.makedirs(p, mode, exist_ok)

    @staticmethod
    def walk(top, topdown=True, onerror=None, followlinks=False):
        if not FS.is_sim(top):
            yield from _real_os.walk(top, topdown, onerror, followlinks)
            return
        sim = Sim.current

        def children(d):
            files, dirs = [], set()
            for f in FS.files:
                if f.startswith(d + "/"):
                    rest = f[len(d) + 1:]
                    if "/" in rest:
                        dirs.add(rest.split("/", 1)[0])
                    else:
                        files.append(rest)
            for x in FS.dirs:
                if x.startswith(d + "/") and "/" not in x[len(d) + 1:]:
                    dirs.add(x[len(d) + 1:])
            files, dirs = sorted(files), sorted(dirs)
            if sim is not None and len(files) > 1:
                # directory order is a file-system property the code must not rely on
                k = sim.choice("walk_order", len(files))
                files = files[k:] + files[:k]
            return dirs, files

        stack = [FS.norm(top)]
        while stack:
            d = stack.pop(0)
            dirs, files = children(d)
            yield d, dirs, files  # the caller may prune `dirs` in place, as with os.walk
            stack = [d + "/" + x for x in dirs] + stack

    @staticmethod
    def listdir(p="."):
        if FS.is_sim(p):
            t = FS.norm(p)
            return sorted(_real_os.path.basename(f) for f in FS.files if _real_os.path.dirname(f) == t)
        return _real_os.listdir(p)

    @staticmethod
    def replace(src, dst):
        if FS.is_sim(src) or FS.is_sim(dst):
            s, d = FS.norm(src), FS.norm(dst)
            _fs_op("replace", d)
            _fs_eio("replace", d)
            FS.files[d] = FS.files.pop(s)
            return
        return _real_os.replace(src, dst)

    rename = replace

    @staticmethod
    def remove(p):
        if FS.is_sim(p):
            _fs_op("remove", p)
            FS.files.pop(FS.norm(p))
            return
        return _real_os.remove(p)

    unlink = remove

    @staticmethod
    def fsync(fd):
        return None


_os_shim = _SimOs()
sys.modules["simworld_os_shim"] = _os_shim


# =========================================================================================
# model load memo (the xgboost model is read-only; loading it costs 1.8 s per Balancer)
# =========================================================================================
_model_memo = {}


class _ModelProxy:
    """The loaded scoring model; `predict_proba` is a fault site (explicit faults: site 'model', key [call ordinal])."""

    def __init__(self, model):
        self.__dict__["_m"] = model

    def __getattr__(self, item):
        return getattr(self.__dict__["_m"], item)

    def predict_proba(self, *a, **kw):
        sim = Sim.current
        if sim is not None and sim.explicit:
            k = sim.ordinal("model_call")
            f = sim.explicit.get(sim.fault_label("model", (k,)))
            if f is not None:
                sim.fire(f, None)
                raise RuntimeError("simulated failure of the scoring model")
        return self.__dict__["_m"].predict_proba(*a, **kw)


def _memo_load(f, *a, **kw):
    name = getattr(f, "name", None) if not isinstance(f, str) else f
    if name in _model_memo:
        return _model_memo[name]
    m = _real_joblib.load(f, *a, **kw)
    if hasattr(m, "predict_proba"):
        m = _ModelProxy(m)
    if name is not None:
        _model_memo[name] = m
    return m


_joblib_shim = _DelegatingModule("simworld_joblib_shim", _real_joblib, load=_memo_load, Parallel=SimParallel)
sys.modules["simworld_joblib_shim"] = _joblib_shim


# =========================================================================================
# monitoring: LINE events in the handful of functions that share records with zombies
# =========================================================================================
TOOL_ID = 4
_zombie_codes = set()
_main_codes = set()
_monitoring_on = False


def _line_cb(code, line):
    sim = Sim.current
    if sim is None:
        return None
    z = getattr(threading.current_thread(), "_sim_zombie", None)
    if z is not None:
        if code in _zombie_codes and z.sim is sim:
            z.park(line)
        return None
    if code in _main_codes and sim.zombies:
        for zz in sim.zombies:  # zombies held back until the pipeline reaches a named function
            if zz.wake_in is not None and zz.wake_in == code.co_name and not zz.finished:
                zz.wake_in = None
                zz.q = 1.0
                sim.probes["zombie_woken_in_" + code.co_name] += 1
        sim.sched_point(("line", code.co_name, line))
    return None


def _install_monitoring(mods):
    global _monitoring_on
    mon = sys.monitoring
    if not _monitoring_on:
        try:
            mon.use_tool_id(TOOL_ID, "simworld")
        except ValueError:
            pass
        mon.register_callback(TOOL_ID, mon.events.LINE, _line_cb)
        _monitoring_on = True

    def code_of(modname, *path):
        obj = mods.get(modname)
        for p in path:
            obj = getattr(obj, p, None)
            if obj is None:
                return None
        obj = getattr(obj, "__func__", obj)
        return getattr(obj, "__code__", None)

    zc = [code_of("synrbl.SynMCSImputer.SubStructure.mcs_process", "single_mcs")]
    mc = [
        code_of("synrbl.SynMCSImputer.SubStructure.mcs_process", "single_mcs_safe"),
        code_of("synrbl.SynMCSImputer.SubStructure.mcs_process", "ensemble_mcs"),
        code_of("synrbl.SynMCSImputer.SubStructure.extract_common_mcs", "ExtractMCS", "get_largest_condition"),
        code_of("synrbl.SynMCSImputer.MissingGraph.find_graph_dict", "find_graph_dict"),
        code_of("synrbl.mcs_search", "MCSSearch", "find"),
        code_of("synrbl.SynMCSImputer.mcs_based_method", "MCSBasedMethod", "run"),
        code_of("synrbl.SynMCSImputer.mcs_based_method", "impute_reaction"),
        code_of("synrbl.SynMCSImputer.mcs_based_method", "build_compounds"),
    ]
    for c in zc:
        if c is not None:
            _zombie_codes.add(c)
            mon.set_local_events(TOOL_ID, c, mon.events.LINE)
    for c in mc:
        if c is not None:
            _main_codes.add(c)
            mon.set_local_events(TOOL_ID, c, mon.events.LINE)


# =========================================================================================
# install
# =========================================================================================
_installed = {}


def import_all_synrbl():
    import synrbl

    mods = {}
    for info in pkgutil.walk_packages(synrbl.__path__, "synrbl."):
        if ".SynVis" in info.name or ".SynAnalysis.visualizer" in info.name or info.name.endswith("eda_analysis"):
            continue
        try:
            mods[info.name] = importlib.import_module(info.name)
        except Exception:  # optional plotting deps etc.
            pass
    mods["synrbl"] = synrbl
    return mods


def install():
    """Rebind the seams in every loaded synrbl module. Idempotent."""
    if _installed:
        return _installed
    mods = import_all_synrbl()
    fmcs_shim, mces_shim = make_rdkit_shims()
    from rdkit.Chem import rdFMCS as real_fmcs, rdRascalMCES as real_mces

    patched = []
    for name, mod in list(sys.modules.items()):
        if mod is None or not (name == "synrbl" or name.startswith("synrbl.")):
            continue
        d = getattr(mod, "__dict__", {})
        for attr, real, shim in (
            ("Parallel", _RealParallel, SimParallel),
            ("multiprocessing", _real_mp, _mp_shim),
            ("rdFMCS", real_fmcs, fmcs_shim),
            ("rdRascalMCES", real_mces, mces_shim),
            ("joblib", _real_joblib, _joblib_shim),
        ):
            if d.get(attr) is real:
                setattr(mod, attr, shim)
                patched.append((name, attr))
        if name.endswith("mcs_process") and d.get("time") is _real_time:
            mod.time = _time_shim
            patched.append((name, "time"))
        if name.endswith("SynUtils.batching"):
            mod.open = sim_open
            if d.get("os") is _real_os:
                mod.os = _os_shim
            patched.append((name, "open/os"))
    bal = sys.modules.get("synrbl.balancing")
    if bal is not None and callable(getattr(bal, "preprocess", None)) and not getattr(bal.preprocess, "_sim_counted", False):
        _orig_pre = bal.preprocess

        def preprocess(*a, **kw):  # observation only: one call per batch that reaches the pipeline
            sim = Sim.current
            if sim is not None:
                sim.batch_no += 1
            return _orig_pre(*a, **kw)

        preprocess._sim_counted = True
        bal.preprocess = preprocess
        patched.append(("synrbl.balancing", "preprocess(counter)"))
    dec = sys.modules.get("synrbl.SynProcessor.rsmi_decomposer")
    if dec is not None and not getattr(dec.RSMIDecomposer.decompose, "_sim_fault", False):
        import functools

        _orig_dec = dec.RSMIDecomposer.decompose

        @functools.wraps(_orig_dec)
        def decompose(smiles):  # fault point inside the worker task: a transient failure of one composition count
            sim = Sim.current
            if sim is not None:
                k = sim.decompose_calls
                sim.decompose_calls += 1
                if sim.explicit:
                    f = sim.explicit.get(sim.fault_label("decompose", (k,)))
                    if f is not None:
                        sim.fire(f, None)
                        raise RuntimeError("simulated failure in RSMIDecomposer.decompose call %d" % k)
            return _orig_dec(smiles)

        decompose._sim_fault = True
        dec.RSMIDecomposer.decompose = staticmethod(decompose)
        patched.append(("synrbl.SynProcessor.rsmi_decomposer", "RSMIDecomposer.decompose(fault point)"))
    _install_monitoring(sys.modules)
    procstate.discover()
    _installed["patched"] = patched
    _installed["mods"] = mods
    return _installed
