"""16-process fan-out. Workers are forked *before* synrbl/xgboost are imported and build
everything after the fork. A dead or hung worker is a harness error (exit 2), never exit 0."""

import faulthandler
import multiprocessing
import os
import sys
import time
from concurrent.futures import ProcessPoolExecutor, as_completed
from concurrent.futures.process import BrokenProcessPool

from .core import HarnessError

RUN_WATCHDOG_S = int(os.environ.get("VERIF_RUN_WATCHDOG", "180"))


def _init():
    os.environ.setdefault("OMP_NUM_THREADS", "1")
    sys.setrecursionlimit(10000)


class SoftTimeout(BaseException):
    """Raised in the worker's main thread when a plan exceeds its soft budget (not catchable by the
    pipeline's `except Exception`)."""


def _on_alarm(signum, frame):
    raise SoftTimeout()


def _call(fn_path, arg):
    import signal

    hard = int(os.environ.get("VERIF_RUN_WATCHDOG", RUN_WATCHDOG_S))
    faulthandler.dump_traceback_later(hard, exit=True)  # backstop: kills the worker (-> exit 2)
    signal.signal(signal.SIGALRM, _on_alarm)
    signal.setitimer(signal.ITIMER_REAL, hard * 0.6)   # first try to give the plan up gracefully
    try:
        mod, name = fn_path.rsplit(":", 1)
        import importlib

        fn = getattr(importlib.import_module(mod), name)
        return fn(arg)
    except SoftTimeout:
        return {"violations": [], "nontrivial": None, "summary": [], "runs": 0, "harness_timeout": True,
                "note": "HARNESS-TIMEOUT: plan gave up after %.0fs" % (hard * 0.6)}
    finally:
        signal.setitimer(signal.ITIMER_REAL, 0)
        faulthandler.cancel_dump_traceback_later()


class Pool:
    def __init__(self, workers=None):
        self.workers = workers or int(os.environ.get("VERIF_WORKERS", os.cpu_count() or 4))
        ctx = multiprocessing.get_context("fork")
        self.ex = ProcessPoolExecutor(max_workers=self.workers, mp_context=ctx, initializer=_init)

    def map_unordered(self, fn_path, args, deadline=None):
        """Yield (arg_index, result) as they complete. Stops submitting after `deadline`."""
        args = list(args)
        futs = {}
        it = iter(enumerate(args))
        pending = set()
        exhausted = False

        def submit_more():
            nonlocal exhausted
            while not exhausted and len(pending) < self.workers * 2:
                if deadline is not None and time.time() > deadline:
                    exhausted = True
                    break
                try:
                    i, a = next(it)
                except StopIteration:
                    exhausted = True
                    break
                f = self.ex.submit(_call, fn_path, a)
                futs[f] = i
                pending.add(f)

        submit_more()
        while pending:
            done = next(as_completed(pending))
            pending.discard(done)
            i = futs.pop(done)
            try:
                r = done.result()
            except BrokenProcessPool as e:
                raise HarnessError("worker process died (watchdog or crash): %r" % (e,))
            yield i, r
            submit_more()

    def call(self, fn_path, arg):
        try:
            return self.ex.submit(_call, fn_path, arg).result()
        except BrokenProcessPool as e:
            raise HarnessError("worker process died (watchdog or crash): %r" % (e,))

    def close(self):
        procs = list((getattr(self.ex, "_processes", None) or {}).values())
        self.ex.shutdown(wait=False, cancel_futures=True)
        for p in procs:  # never leave a worker behind holding our stdout
            try:
                p.kill()
            except Exception:
                pass
