"""Execute one simulated run (or history step) of the real Balancer from a pure-data spec."""

import contextlib
import csv
import io
import json
import logging
import math
import os
import shutil
import sys
import tempfile
import traceback

from .core import Sim, SimCrash, HarnessError
from . import seams

PUBLIC_COLS = ["input_reaction", "reaction", "solved", "solved_by", "confidence", "rules", "issue"]

_setup_done = False


def setup():
    """Import synrbl from the tree under test and install the seams (once per process)."""
    global _setup_done
    if _setup_done:
        return
    repo = os.environ.get("SYNRBL_REPO", "/repo")
    if repo not in sys.path:
        sys.path.insert(0, repo)
    import synrbl  # noqa

    got = os.path.dirname(os.path.dirname(os.path.abspath(synrbl.__file__)))
    if os.path.realpath(got) != os.path.realpath(repo):
        raise HarnessError("synrbl imported from %s, expected %s" % (got, repo))
    from rdkit import RDLogger

    RDLogger.DisableLog("rdApp.*")
    logging.getLogger("synrbl").setLevel(logging.CRITICAL + 1)
    logging.getLogger().setLevel(logging.CRITICAL + 1)
    seams.install()
    _setup_done = True


def fresh_state():
    """Forget every synrbl module (and with it any module-level state the code under test keeps: memo
    tables, shared pools, class-level caches), import the tree again and re-install the seams. ~0.1 s.
    Called before every plan, so a plan never depends on what its worker process ran before."""
    setup()
    for k in [k for k in sys.modules if k == "synrbl" or k.startswith("synrbl.")]:
        del sys.modules[k]
    seams._installed.clear()
    seams.install()


def _isnan(v):
    return isinstance(v, float) and math.isnan(v)


def norm_row(r, reaction_col="reaction"):
    """Public view of a result row with 'absent / None / NaN' normalised."""
    if not isinstance(r, dict):
        return {"_not_a_row": repr(r)[:80]}
    out = {}
    v = r.get("input_reaction")
    out["input_reaction"] = None if v is None or _isnan(v) else v
    v = r.get(reaction_col)
    out["reaction"] = None if v is None or _isnan(v) else v
    out["solved"] = bool(r.get("solved")) if not _isnan(r.get("solved")) else False
    v = r.get("solved_by")
    out["solved_by"] = None if v is None or _isnan(v) or v == "" else v
    v = r.get("confidence")
    out["confidence"] = None if v is None or _isnan(v) else float(v)
    v = r.get("rules")
    out["rules"] = [] if v is None or _isnan(v) else list(v)
    v = r.get("issue")
    out["issue"] = "" if v is None or _isnan(v) else str(v)
    return out


def _jsonable(x):
    try:
        json.dumps(x)
        return x
    except Exception:
        return json.loads(json.dumps(x, default=repr))


class quiet:
    def __enter__(self):
        self._o, self._e = sys.stdout, sys.stderr
        self.buf = io.StringIO()
        sys.stdout = sys.stderr = self.buf
        return self

    def __exit__(self, *a):
        sys.stdout, sys.stderr = self._o, self._e
        return False


def make_balancer(cfg):
    """Fresh Balancer (as a new process would build it). `assign` lists public attributes that are set
    after construction instead of through the constructor (both are documented usage)."""
    from synrbl import Balancer

    assign = dict(cfg.get("assign") or {})
    thr = cfg.get("threshold", 0)
    kw = {}
    if "confidence_threshold" in assign:
        assign["confidence_threshold"] = thr
    else:
        kw["confidence_threshold"] = thr
    bal = Balancer(
        id_col=cfg.get("id_col", "id"),
        reaction_col=cfg.get("reaction_col", "reaction"),
        n_jobs=cfg.get("ctor_n_jobs", cfg.get("n_jobs", 1)) if "n_jobs" in assign else cfg.get("n_jobs", 1),
        batch_size=cfg.get("batch_size"),
        cache=bool(cfg.get("cache", False)),
        cache_dir=cfg.get("cache_dir", seams.SIMFS_ROOT + "/cache"),
        **kw,
    )
    for k, v in assign.items():
        setattr(bal, k, v)
    return bal


def make_inputs(rows, source, reaction_col):
    """rows: list of str or dict. Returns (argument for rebalance, cleanup fn)."""
    if source in ("list", "str"):
        out = []
        for r in rows:
            out.append(r[reaction_col] if isinstance(r, dict) and set(r) == {reaction_col} else r)
        return out, lambda: None
    dict_rows = [dict(r) if isinstance(r, dict) else {reaction_col: r} for r in rows]
    if source == "dict":
        return dict_rows, lambda: None
    tmp = tempfile.mkdtemp(prefix="simw_", dir="/dev/shm" if os.path.isdir("/dev/shm") else None)
    if source == "json":
        p = os.path.join(tmp, "in.json")
        with open(p, "w") as f:
            json.dump(dict_rows, f)
    elif source in ("csv", "cli"):
        p = os.path.join(tmp, "in.csv")
        cols = []
        for r in dict_rows:
            for k in r:
                if k not in cols:
                    cols.append(k)
        with open(p, "w", newline="") as f:
            w = csv.writer(f)
            w.writerow(cols)
            for r in dict_rows:
                if not r:
                    f.write("\r\n")  # a blank line: the reader yields an empty record
                    continue
                w.writerow(["" if r.get(c) is None else r.get(c) for c in cols])
    else:
        raise HarnessError("unknown source %r" % source)
    return p, lambda: shutil.rmtree(tmp, ignore_errors=True)


def run_once(spec, balancer=None):
    """spec keys: rows, source, config{reaction_col,id_col,threshold,n_jobs,batch_size,cache},
    sim{sched_seed,faults,clock,par_mode,crash_after,crash_open,enospc_after}, tap (bool),
    passthrough (cli), extra_columns (list of internal columns to return)."""
    setup()
    cfg = dict(spec.get("config") or {})
    reaction_col = cfg.get("reaction_col", "reaction")
    source = spec.get("source", "list")
    sim = Sim(spec.get("sim") or {})
    res = {
        "rows": None,
        "stats": None,
        "exc": None,
        "crashed": False,
        "raw_len": None,
    }
    arg, cleanup = make_inputs(spec["rows"], source, reaction_col)
    taps_installed = None
    Sim.current = sim
    try:
        with quiet() as q:
            try:
                if spec.get("tap"):
                    from . import taps

                    taps_installed = taps.install(sim)
                if source == "cli":
                    from synrbl.SynCmd import cmd_run

                    out_file = os.path.join(os.path.dirname(arg), "out.csv")
                    cmd_run.impute(
                        arg,
                        out_file,
                        reaction_col=reaction_col,
                        passthrough_cols=list(spec.get("passthrough") or []),
                        min_confidence=cfg.get("threshold", 0),
                        n_jobs=cfg.get("n_jobs", 1),
                        cache=bool(cfg.get("cache", False)),
                        cache_dir=cfg.get("cache_dir", seams.SIMFS_ROOT + "/cache"),
                        batch_size=cfg.get("batch_size"),
                    )
                    import pandas as pd

                    df = pd.read_csv(out_file, keep_default_na=False, na_values=[], float_precision="round_trip")
                    raw = df.to_dict("records")
                    with open(out_file + ".stats") as f:
                        stats = json.load(f)
                    res["cli_rows"] = _jsonable(raw)
                    rows = []
                    for r in raw:
                        r2 = dict(r)
                        for k in ("solved",):
                            if isinstance(r2.get(k), str):
                                r2[k] = r2[k] == "True"
                        if isinstance(r2.get("rules"), str):
                            try:
                                r2["rules"] = json.loads(r2["rules"].replace("'", '"')) if r2["rules"] else []
                            except Exception:
                                r2["rules"] = [r2["rules"]]
                        if r2.get("confidence") == "":
                            r2["confidence"] = None
                        elif isinstance(r2.get("confidence"), str):
                            r2["confidence"] = float(r2["confidence"])
                        rows.append(r2)
                else:
                    bal = balancer if balancer is not None else make_balancer(cfg)
                    if spec.get("tap"):
                        bal.columns = list(bal.columns) + ["mcs", "id", "carbon_balance_check"]
                    if spec.get("extra_columns"):
                        bal.columns = list(bal.columns) + [c for c in spec["extra_columns"] if c not in bal.columns]
                    if source in ("csv", "json"):
                        from synrbl.SynUtils.batching import Dataset

                        arg2 = Dataset(arg)
                    else:
                        arg2 = arg
                    stats = {}
                    kw = {}
                    if cfg.get("call_batch_size") is not None:
                        # second route for the batch size: the per-call argument overrides the constructor's value
                        kw["batch_size"] = cfg["call_batch_size"]
                    rows = bal.rebalance(arg2, output_dict=True, stats=stats, **kw)
                res["raw_len"] = len(rows)
                res["rows"] = [norm_row(r, reaction_col) for r in rows]
                if spec.get("extra_columns"):
                    res["extra"] = _jsonable([
                        {c: (r[c] if c in r else "<absent>") for c in spec["extra_columns"]} if isinstance(r, dict) else None for r in rows
                    ])
                if spec.get("tap"):
                    res["tap_rows"] = _jsonable(
                        [
                            {k: r.get(k) for k in ("mcs", "id", "carbon_balance_check")}
                            if isinstance(r, dict)
                            else None
                            for r in rows
                        ]
                    )
                res["stats"] = _jsonable(stats)
            except SimCrash as e:
                res["crashed"] = True
                res["exc"] = "SimCrash"
            except HarnessError:
                raise
            except Exception as e:
                res["exc"] = type(e).__name__
                res["exc_msg"] = str(e)[:300]
                res["exc_tb"] = traceback.format_exc()[-1500:]
        res["noise"] = len(q.buf.getvalue())
        if "Traceback" in q.buf.getvalue():
            res["batch_error"] = q.buf.getvalue()[-1200:]
    finally:
        try:
            sim.abort_zombies()
        finally:
            Sim.current = None
            if taps_installed:
                taps_installed()
            cleanup()
    res["fired"] = dict(sim.fired)
    res["fired_list"] = _jsonable(sim.fired_list)
    res["probes"] = dict(sim.probes)
    res["affected"] = sorted(sim.affected)
    res["affected_all"] = sim.affected_all
    res["affected_rows"] = sorted([list(x) for x in sim.affected_rows], key=repr)
    res["batches_seen"] = sim.batch_no
    res["digest"] = sim.digest()
    res["interleave"] = sim.interleave.hexdigest()
    res["simtime"] = sim.now
    res["par_calls"] = sim.par_calls
    res["par_tasks"] = sim.par_tasks
    res["decompose_calls"] = sim.decompose_calls
    res["zombies"] = len(sim.zombies)
    res["events"] = len(sim.log)
    res["bytes_written"] = sim.bytes_written
    res["fs_ops"] = sim.ordinals.get("fs_op", 0) if sim.crash_op is not None else None
    res["fs_write_calls"] = sim.ordinals.get("fs_write_call", 0) if sim.crash_wcall is not None else None
    res["jobs"] = _jsonable([[e[1], list(e[2])] for e in sim.log if e and e[0] == "job"])
    if spec.get("tap"):
        res["taps"] = _jsonable(sim.taps.get("records", []))
    return res
