"""Per-process module state of the code under test.

In a real loky pool every worker is its own interpreter: module-level data of synrbl (globals that are
rebound at run time, module- and class-level dicts/lists/sets used as memo tables or registries) is
private to the worker, starts in its import-time state, and persists from task to task of that worker.
Nothing a task stores there is seen by the parent, and nothing the parent stored at run time is seen by
the task. SimParallel's process mode swaps that state in and out around every task, so code that only
works because everything shares one address space (n_jobs=1) behaves here as it would with processes.

Tracked: for every loaded synrbl module the *data* attributes (not functions, classes, modules) and the
contents of module-level and class-level dict/list/set objects (shallow).
"""

import sys
import types

_slots = []       # (owner, name) data attributes of modules
_containers = {}  # id -> container object (module- or class-level dict/list/set)
_pristine = None


def _is_data(v):
    return not isinstance(v, (types.FunctionType, types.BuiltinFunctionType, types.ModuleType, type, staticmethod, classmethod, property)) and not callable(v)


def discover():
    """Called after the seams are installed: remember the import-time state."""
    global _pristine
    _slots.clear()
    _containers.clear()
    for name, mod in list(sys.modules.items()):
        if mod is None or not (name == "synrbl" or name.startswith("synrbl.")):
            continue
        for k, v in list(vars(mod).items()):
            if k.startswith("__"):
                continue
            if isinstance(v, type) and getattr(v, "__module__", None) == name:
                for ck, cv in list(vars(v).items()):
                    if isinstance(cv, (dict, list, set)) and not ck.startswith("__"):
                        _containers[id(cv)] = cv
                continue
            if _is_data(v):
                _slots.append((mod, k))
                if isinstance(v, (dict, list, set)):
                    _containers[id(v)] = v
    _pristine = capture()


def capture():
    bind = [(o, k, getattr(o, k, _MISSING)) for o, k in _slots]
    cont = {}
    for cid, c in _containers.items():
        cont[cid] = c.copy()
    return {"bind": bind, "cont": cont}


_MISSING = object()


def apply(state):
    for o, k, v in state["bind"]:
        if v is _MISSING:
            if hasattr(o, k):
                try:
                    delattr(o, k)
                except Exception:
                    pass
        else:
            try:
                setattr(o, k, v)
            except Exception:
                pass
    for cid, saved in state["cont"].items():
        c = _containers.get(cid)
        if c is None:
            continue
        if isinstance(c, list):
            c[:] = saved
        else:
            c.clear()
            c.update(saved)


def fresh_worker_state():
    """Import-time state for a worker that has not run any task yet."""
    return {"bind": list(_pristine["bind"]), "cont": {cid: v.copy() for cid, v in _pristine["cont"].items()}}


class WorkerContext:
    """with WorkerContext(sim, w): ... runs the body on worker w's module state."""

    def __init__(self, sim, w):
        self.sim = sim
        self.w = w

    def __enter__(self):
        if _pristine is None:
            return self
        states = self.sim.__dict__.setdefault("worker_states", {})
        self.parent = capture()
        apply(states[self.w] if self.w in states else fresh_worker_state())
        return self

    def __exit__(self, *a):
        if _pristine is None:
            return False
        self.sim.worker_states[self.w] = capture()
        apply(self.parent)
        return False
