"""Observation taps (C10): record the argument tables and the result of
ExtractMCS.get_largest_condition without touching /repo. Installed per run, removed afterwards."""

import copy


def install(sim):
    from synrbl.SynMCSImputer.SubStructure import extract_common_mcs as m

    cls = m.ExtractMCS
    orig_attr = cls.__dict__.get("get_largest_condition")
    orig = orig_attr.__func__ if isinstance(orig_attr, staticmethod) else orig_attr
    sim.taps["records"] = []

    def tapped(*conditions):
        before = copy.deepcopy([list(c) for c in conditions])
        sim.taps["in_largest_condition"] = True
        try:
            result = orig(*conditions)
        finally:
            sim.taps["in_largest_condition"] = False
        sim.taps["records"].append({"conditions": before, "result": copy.deepcopy(result)})
        return result

    cls.get_largest_condition = staticmethod(tapped)

    def remove():
        cls.get_largest_condition = orig_attr

    return remove
