"""simworld - deterministic simulation of SynRBL's batch pipeline.

One plan (pure JSON data) == one exactly repeatable execution of the *real*
synrbl code with every source of nondeterminism (joblib scheduling and copy
semantics, thread-pool timeouts and their zombie threads, RDKit search budgets,
wall clock, cache directory) replaced by simulator-owned fakes.
See /verif/DESIGN.md section 2.
"""
