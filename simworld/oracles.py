"""Oracles that share no code with the code under test (DESIGN.md section 3).

Trusted base: RDKit's SMILES parser / sanitiser / canonicaliser / substructure matcher.
"""

import re
from collections import Counter
from functools import lru_cache

from rdkit import Chem

SOLVED_BY = ("input-balanced", "rule-based", "mcs-based")
_MAP_RE = re.compile(r":\d+\]")
_NONMETALS = frozenset("H B C N O F Si P S Cl As Se Br Te I At".split())


@lru_cache(maxsize=200_000)
def _mol_info(smi):
    """(composition Counter incl. H, charge, canonical map-free smiles, radicals, carbons) or None."""
    if not isinstance(smi, str):
        return None
    try:
        m = Chem.MolFromSmiles(smi)
    except Exception:
        m = None
    if m is None:
        return None
    comp = Counter()
    charge = 0
    radicals = 0
    for a in m.GetAtoms():
        comp[a.GetSymbol()] += 1
        comp["H"] += a.GetTotalNumHs()
        charge += a.GetFormalCharge()
        if a.GetSymbol() in _NONMETALS:  # RDKit also reports "radicals" on bare metal atoms/ions
            radicals += a.GetNumRadicalElectrons()
    if comp["H"] == 0:
        del comp["H"]
    m2 = Chem.Mol(m)
    for a in m2.GetAtoms():
        a.SetAtomMapNum(0)
    can = Chem.MolToSmiles(m2)
    # canonical ranks computed while the map numbers were still there can leak into the output for
    # pseudo-asymmetric ring stereo centres: canonicalise once more from the map-free string
    m3 = Chem.MolFromSmiles(can)
    if m3 is not None:
        can = Chem.MolToSmiles(m3)
    return (frozenset(comp.items()), charge, can, radicals, comp.get("C", 0))


def split_rsmi(rsmi):
    """(reactant side, product side) if the string has exactly one '>>' else None."""
    if not isinstance(rsmi, str) or rsmi.count(">>") != 1 or rsmi.count(">") != 2:
        return None
    a, b = rsmi.split(">>")
    return a, b


def side_comp(side):
    """(element Counter, charge) of a dot-separated side, or None if any component is invalid."""
    total = Counter()
    q = 0
    if side == "":
        return total, 0
    for c in side.split("."):
        info = _mol_info(c)
        if info is None:
            return None
        total.update(dict(info[0]))
        q += info[1]
    return total, q


def balanced(rsmi):
    """True / False, or None if the reaction cannot be judged (does not parse)."""
    s = split_rsmi(rsmi)
    if s is None:
        return None
    a, b = side_comp(s[0]), side_comp(s[1])
    if a is None or b is None:
        return None
    return a[0] == b[0] and a[1] == b[1]


def imbalance(rsmi):
    s = split_rsmi(rsmi)
    a, b = side_comp(s[0]), side_comp(s[1])
    d = Counter(a[0])
    d.subtract(b[0])
    return {k: v for k, v in d.items() if v}, a[1] - b[1]


def carbon_counts(rsmi):
    s = split_rsmi(rsmi)
    if s is None:
        return None
    out = []
    for side in s:
        n = 0
        if side:
            for c in side.split("."):
                info = _mol_info(c)
                if info is None:
                    return None
                n += info[4]
        out.append(n)
    return tuple(out)


def mol_multiset(side):
    """Counter of canonical, map-free molecule SMILES of a side; None if a component is invalid."""
    out = Counter()
    if side == "":
        return out
    for c in side.split("."):
        info = _mol_info(c)
        if info is None:
            return None
        out[info[2]] += 1
    return out


def is_valid_row(rsmi):
    """Domain of the pipeline properties: exactly one '>>', non-empty sides, every component
    parses and sanitises, closed shell (no radical electrons)."""
    s = split_rsmi(rsmi)
    if s is None:
        return False
    for side in s:
        if side == "":
            return False
        for c in side.split("."):
            if c == "":
                return False
            info = _mol_info(c)
            if info is None or info[3] != 0:
                return False
    return True


def has_atom_map(s):
    return isinstance(s, str) and _MAP_RE.search(s) is not None


def contains(big, small):
    """multiset containment small <= big"""
    return all(big.get(k, 0) >= v for k, v in small.items())


# ----------------------------------------------------------------------------- row oracles
def V(prop, clause, key, detail, **extra):
    d = {"property": prop, "clause": clause, "key": key, "detail": detail}
    d.update(extra)
    return d


def check_c01(inp, row):
    if not row["solved"]:
        return []
    b = balanced(row["reaction"])
    if b is True:
        return []
    what = "does not parse" if b is None else "is not balanced"
    return [
        V(
            "C01",
            "solved_unbalanced",
            c01_key(inp, row),
            "row marked solved ({}) but its reaction {}: {} -> {}".format(
                row["solved_by"], what, inp, row["reaction"]
            ),
        )
    ]


def added_molecules(inp, out):
    """(added on reactant side, added on product side) as sorted lists, or None."""
    si, so = split_rsmi(inp), split_rsmi(out)
    if si is None or so is None:
        return None
    res = []
    for a, b in zip(si, so):
        ma, mb = mol_multiset(a), mol_multiset(b)
        if ma is None or mb is None:
            return None
        d = Counter(mb)
        d.subtract(ma)
        res.append(sorted((+d).elements()))
    return res


# reagent sets of the two stoichiometric KMnO4 templates (known finding C01-KMNO4)
def _canon_list(xs):
    return sorted(_mol_info(x)[2] for x in xs)


@lru_cache(maxsize=1)
def _kmno4_signatures():
    t2 = (_canon_list(["[K][O][Mn](=O)(=O)=O", "OS(=O)(=O)O"]),
          _canon_list(["[K][O]S(=O)(=O)[O][K]", "[Mn]1[O]S(=O)(=O)[O]1"]))
    t3 = (_canon_list(["O=[Mn](=O)(=O)O[K]", "O"]), _canon_list(["O=[Mn]=O", "O[K]"]))
    return {"oxidation_template_2": t2, "oxidation_template_3": t3}


def c01_key(inp, row):
    """Cause class of an unbalanced solved row: which reagent template was pasted in, if any."""
    add = added_molecules(inp, row["reaction"] or "")
    if add is None:
        return "unparsable_output"
    for name, (r, p) in _kmno4_signatures().items():
        if contains(Counter(add[0]), Counter(r)) and contains(Counter(add[1]), Counter(p)):
            return name
    if row["solved_by"] == "input-balanced":
        return "input_check"
    return "stage:" + str(row["solved_by"])


def check_c02(inp, row):
    out = []
    si = split_rsmi(inp)
    sr = split_rsmi(row["reaction"]) if row["reaction"] else None
    sin = split_rsmi(row["input_reaction"]) if row["input_reaction"] else None
    if sr is None:
        return [V("C02", "output_not_a_reaction", "shape", "reaction column is %r for input %s" % (row["reaction"], inp))]
    for side_name, a, b in (("reactant", si[0], sr[0]), ("product", si[1], sr[1])):
        ma, mb = mol_multiset(a), mol_multiset(b)
        if mb is None:
            out.append(V("C02", "output_unparsable", side_name, "output %s side does not parse: %s" % (side_name, b)))
            continue
        if not contains(mb, ma):
            missing = Counter(ma)
            missing.subtract(mb)
            out.append(
                V(
                    "C02",
                    "molecule_lost_or_altered",
                    side_name,
                    "input molecules {} missing from the {} side: {} -> {}".format(
                        sorted((+missing).elements()), side_name, inp, row["reaction"]
                    ),
                )
            )
    if sin is None:
        out.append(V("C02", "input_reaction_shape", "shape", "input_reaction is %r" % (row["input_reaction"],)))
    else:
        if has_atom_map(row["input_reaction"]):
            out.append(V("C02", "input_reaction_has_map", "map", "input_reaction keeps atom maps: %s" % row["input_reaction"]))
        for side_name, a, b in (("reactant", si[0], sin[0]), ("product", si[1], sin[1])):
            if mol_multiset(a) != mol_multiset(b):
                out.append(
                    V("C02", "input_reaction_differs", side_name, "input_reaction %s is not the input %s" % (row["input_reaction"], inp))
                )
    if has_atom_map(row["reaction"]):
        out.append(V("C02", "output_has_map", "map", "output keeps atom maps: %s" % row["reaction"]))
    return out


def check_c03(inp, row, threshold=0):
    out = []
    if row["solved"]:
        if row["solved_by"] not in SOLVED_BY:
            out.append(V("C03", "solved_without_method", str(row["solved_by"]), "solved row names method %r: %s" % (row["solved_by"], inp)))
        if row["issue"] != "":
            out.append(V("C03", "solved_with_issue", str(row["solved_by"]), "solved row carries issue %r: %s" % (row["issue"], inp)))
    else:
        below = row["solved_by"] == "mcs-based" and row["confidence"] is not None and threshold > 0
        if row["reaction"] != row["input_reaction"] and not below:
            out.append(
                V("C03", "declined_not_reverted", "revert", "declined row differs from its input: %s -> %s" % (row["input_reaction"], row["reaction"]))
            )
        if row["issue"] == "":
            out.append(V("C03", "declined_without_reason", "issue", "declined row has no issue text: %s" % inp))
    cc = carbon_counts(inp)
    if cc is not None and cc[1] > cc[0] and row["solved"]:
        out.append(V("C03", "carbon_surplus_solved", str(row["solved_by"]), "products have more carbon than reactants but row is solved: %s" % inp))
    return out


def check_c04(inp, row):
    out = []
    b = balanced(inp)
    ib = row["solved_by"] == "input-balanced"
    if b and not ib:
        out.append(V("C04", "balanced_not_recognised", str(row["solved_by"]), "balanced input labelled %r: %s -> %s" % (row["solved_by"], inp, row["reaction"])))
    if ib and not b:
        out.append(V("C04", "unbalanced_labelled_input_balanced", c04_key(inp), "unbalanced input labelled input-balanced: %s" % inp))
    if ib:
        if not row["solved"]:
            out.append(V("C04", "input_balanced_not_solved", "solved", "input-balanced row not solved: %s" % inp))
        if row["reaction"] != row["input_reaction"]:
            out.append(V("C04", "input_balanced_changed", "changed", "input-balanced row changed: %s -> %s" % (row["input_reaction"], row["reaction"])))
    return out


def c04_key(inp):
    d, q = imbalance(inp)
    if q and not d:
        return "charge_only"
    return "elements:" + ",".join(sorted(d))


def pipeline_accepts(s):
    """A row the pipeline can process at all: a string with exactly one '>>' whose sides parse
    (an empty side parses). Everything else is a malformed row that is only passed through."""
    sp = split_rsmi(s)
    if sp is None:
        return False
    try:
        return all(Chem.MolFromSmiles(x) is not None for x in sp)
    except Exception:
        return False


def check_c18(rows, stats, n_inputs, processed=None):
    """Statistics vs rows. `processed[i]` False marks a malformed input row (never reaches any stage)."""
    out = []
    if processed is not None:
        all_rows = rows
        rows = [r for r, ok in zip(all_rows, processed) if ok]
    if stats is None:
        return [V("C18", "no_stats", "none", "no statistics returned")]
    need = ["reaction_cnt", "balanced_cnt", "rb_applied", "rb_solved", "mcs_applied", "mcs_solved", "confident_cnt"]
    miss = [k for k in need if k not in stats]
    if miss:
        return [V("C18", "missing_keys", ",".join(miss), "statistics lack %s: %r" % (miss, stats))]
    n_ib = sum(1 for r in rows if r["solved_by"] == "input-balanced")
    n_rb = sum(1 for r in rows if r["solved_by"] == "rule-based")
    n_mcs = sum(1 for r in rows if r["solved_by"] == "mcs-based")
    n_conf = sum(1 for r in rows if r["solved_by"] == "mcs-based" and r["solved"])
    n_late = sum(1 for r in rows if r["solved_by"] not in ("input-balanced", "rule-based"))

    def bad(clause, detail):
        out.append(V("C18", clause, clause, detail + " stats=%r" % (stats,)))

    if stats["reaction_cnt"] != n_inputs:
        bad("reaction_cnt", "reaction_cnt %s != %d input rows;" % (stats["reaction_cnt"], n_inputs))
    if stats["balanced_cnt"] != n_ib:
        bad("balanced_cnt", "balanced_cnt %s != %d input-balanced rows;" % (stats["balanced_cnt"], n_ib))
    if stats["confident_cnt"] != n_conf:
        bad("confident_cnt", "confident_cnt %s != %d solved mcs-based rows;" % (stats["confident_cnt"], n_conf))
    if stats["mcs_applied"] != n_late:
        bad("mcs_applied", "mcs_applied %s != %d rows not solved before the MCS stage;" % (stats["mcs_applied"], n_late))
    if stats["rb_solved"] > stats["rb_applied"]:
        bad("rb_solved_gt_applied", "rb_solved > rb_applied;")
    if stats["mcs_solved"] > stats["mcs_applied"]:
        bad("mcs_solved_gt_applied", "mcs_solved > mcs_applied;")
    if stats["rb_solved"] < n_rb:
        bad("rb_solved_lt_rows", "rb_solved %s < %d rule-based rows;" % (stats["rb_solved"], n_rb))
    if stats["mcs_solved"] < n_mcs:
        bad("mcs_solved_lt_rows", "mcs_solved %s < %d mcs-based rows;" % (stats["mcs_solved"], n_mcs))
    return out


def rows_equal(a, b, cols=("input_reaction", "reaction", "solved", "solved_by", "confidence", "rules", "issue")):
    return [c for c in cols if a.get(c) != b.get(c)]
