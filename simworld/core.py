"""Simulator core: stateless-hash choices, simulated clock, event log, fault table.

Everything random is `H(sched_seed, label, ordinal)`; there is no PRNG state,
so deleting a row or a fault from a plan does not reshuffle unrelated choices.
Logging never draws a choice and never reads a real clock.
"""

import hashlib
import json
import threading
from collections import Counter

EPOCH = 1_700_000_000.0


def H(*parts) -> int:
    """64-bit stateless hash of the parts (stable across processes / hash seeds)."""
    m = hashlib.blake2b(digest_size=8)
    for p in parts:
        m.update(repr(p).encode())
        m.update(b"\x1f")
    return int.from_bytes(m.digest(), "big")


def unit(*parts) -> float:
    return H(*parts) / 2.0**64


class SimCrash(BaseException):
    """The simulated process was killed (not catchable by `except Exception`)."""


class HarnessError(Exception):
    """The simulator itself is broken (never reported as a property violation)."""


# sites and the fault kinds that may fire there (order = priority when several rates hit)
FAULT_SITES = {
    "mcs_job": ["timeout", "hang"],
    "frag_job": ["timeout", "exception"],
    "fmcs": ["cancel", "raise"],
    "fmces": ["empty", "raise"],
    "par_task": ["raise"],  # a worker task of the k-th Parallel call fails (explicit faults only)
    "decompose": ["raise"],  # the k-th RSMIDecomposer.decompose call of the run fails INSIDE its task (explicit faults only)
    "model": ["raise"],  # the scoring model's predict_proba fails at its k-th call (explicit faults only)
}


class Sim:
    """State of one simulated run."""

    current = None  # the run being simulated in this process (one at a time)

    def __init__(self, cfg=None):
        cfg = cfg or {}
        self.seed = int(cfg.get("sched_seed", 0))
        self.fault_seed = int(cfg.get("fault_seed", self.seed))  # which labels are faulted (rate mode)
        f = cfg.get("faults") or {}
        self.explicit = {}
        for e in f.get("explicit", []) or []:
            self.explicit[self.fault_label(e["site"], e["key"])] = e
        self.rates = f.get("rates") or {}
        self.zombie_q = float(f.get("zombie_q", 0.0))
        self.wake_sites = list(f.get("wake_sites") or [])
        clock = cfg.get("clock") or {}
        self.skew = float(clock.get("skew0", 0.0))
        self.jump_rate = float(clock.get("jump_rate", 0.0))
        self.jump_mag = float(clock.get("jump_mag", 0.0))
        self.clock_steps = {int(k): float(d) for k, d in (clock.get("steps") or [])}  # read ordinal -> step
        # "auto": joblib semantics (n_jobs==1 inline, else pickled process copies)
        self.par_mode = cfg.get("par_mode", "auto")
        self.cpu_count = int(cfg.get("cpu_count", 16))
        self.crash_after = cfg.get("crash_after")  # byte budget for cache writes
        self.crash_open = cfg.get("crash_open")  # ordinal of the write-open that is never reached
        self.crash_op = cfg.get("crash_op")  # ordinal of the mutating file-system operation that is never reached
        self.crash_wcall = cfg.get("crash_wcall")  # ordinal of the write() call that is never reached
        self.eio = cfg.get("eio")  # ["replace"|"read"|"open_write", k]: that operation fails with OSError at its k-th use
        self.enospc_after = cfg.get("enospc_after")
        self.now = 0.0
        self.log = []
        self.fired = Counter()
        self.fired_list = []
        self.probes = Counter()
        self.ordinals = Counter()
        self.zombies = []
        self.tls = threading.local()
        self.affected = set()  # reaction keys touched by a fired fault
        self.affected_all = False
        self.affected_rows = set()  # (batch number, row id, reaction key) of rows whose own jobs were faulted
        self.batch_no = 0
        self.reactants_to_rxn = {}
        self.interleave = hashlib.blake2b(digest_size=8)
        self.bytes_written = 0
        self.par_calls = 0
        self.par_tasks = 0
        self.decompose_calls = 0
        self.taps = {}  # observation taps (C10)
        self.in_process_task = 0

    # ------------------------------------------------------------------ choices
    def ordinal(self, label):
        k = self.ordinals[label]
        self.ordinals[label] = k + 1
        return k

    def choice(self, label, n):
        """Uniform integer in [0, n) decided by (seed, label, ordinal of label)."""
        if n <= 1:
            return 0
        return H(self.seed, label, self.ordinal(label)) % n

    def unit(self, label):
        return unit(self.seed, label, self.ordinal(label))

    # ------------------------------------------------------------------ logging
    def event(self, *ev):
        self.log.append(ev)

    def digest(self):
        m = hashlib.blake2b(digest_size=8)
        m.update(json.dumps(self.log, sort_keys=True, default=repr).encode())
        return m.hexdigest()

    # ------------------------------------------------------------------ clock
    def advance(self, dt):
        self.now += dt

    def wall(self):
        k = self.ordinal("clock_read")
        if k in self.clock_steps:  # NTP step / suspend-resume at a planned read
            self.skew += self.clock_steps[k]
            self.fired["clock_jump"] += 1
        if self.jump_rate > 0 and self.unit("clock_jump") < self.jump_rate:
            sign = 1 if self.choice("clock_sign", 2) else -1
            self.skew += sign * self.jump_mag * (0.1 + 0.9 * self.unit("clock_mag"))
            self.fired["clock_jump"] += 1
        return EPOCH + self.now + self.skew

    def duration(self, label, lo=0.001, hi=0.1):
        u = self.unit(("dur", label))
        return lo * (hi / lo) ** u

    # ------------------------------------------------------------------ faults
    @staticmethod
    def fault_label(site, key):
        return site + "|" + "|".join(str(k) for k in key)

    def fault_for(self, site, key):
        """The fault planned for this site/key or None. Pure in (plan, site, key)."""
        label = self.fault_label(site, key)
        e = self.explicit.get(label)
        if e is not None:
            return e
        rates = self.rates.get(site)
        if not rates:
            return None
        for kind in FAULT_SITES[site]:
            r = rates.get(kind, 0.0)
            if r > 0 and unit(self.fault_seed, "fault", label, kind) < r:
                e = {"site": site, "key": list(key), "kind": kind}
                h = H(self.fault_seed, "faultparam", label, kind)
                if site == "mcs_job" and kind == "timeout":
                    e["lines"] = h % 16
                    if self.wake_sites and (h >> 8) % 3 == 0:
                        # hold the zombie back until the pipeline is inside a function that reads the
                        # shared record, then let it run eagerly (faults placed where state is in flight)
                        e["wake_in"] = self.wake_sites[(h >> 16) % len(self.wake_sites)]
                if site == "fmcs" and kind == "cancel":
                    e["drop"] = 1 + h % 3
                return e
        return None

    def fire(self, e, rxn_keys=None, record=True, row=None):
        """Record that a planned fault actually took effect. `row` = (batch, id, rxn) pins it to one result
        row (duplicates of a reaction are separate rows); otherwise every row of the reaction counts."""
        self.fired[e["site"] + "." + e["kind"]] += 1
        if record:
            self.fired_list.append(e)
        self.event("fault", e["site"], e["kind"], list(e["key"]))
        if row is not None:
            self.affected_rows.add(row)
        elif rxn_keys is None:
            self.affected_all = True
        else:
            self.affected.update(rxn_keys)

    # ------------------------------------------------------------------ job context
    @property
    def job(self):
        return getattr(self.tls, "job", None)

    @job.setter
    def job(self, v):
        self.tls.job = v

    # ------------------------------------------------------------------ zombies
    def live_zombies(self):
        return [z for z in self.zombies if not z.finished and not z.aborted]

    def sched_point(self, label):
        """A point where the real system could have let a zombie thread run."""
        zs = self.live_zombies()
        if not zs:
            return
        for z in zs:
            q = z.q
            if q <= 0:
                continue
            if q >= 1 or unit(self.seed, "zstep", z.label, z.step_ord()) < q:
                z.step(label)

    def abort_zombies(self, only=None):
        for z in list(self.zombies):
            if only is not None and z not in only:
                continue
            z.abort()

    def note_interleave(self, *ev):
        self.interleave.update(repr(ev).encode())
