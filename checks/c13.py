"""C13: the confidence threshold only demotes low-confidence MCS results.

Configuration sweep on a frozen schedule: one plan fixes rows, batching, workers, task schedule and
(optionally) MCS-stage faults; the run is repeated with only `confidence_threshold` changed. The
thresholds are 0, 1, every observed confidence c, its float64 neighbours, c +- 0.001 and a few draws.
"""

import math
import re

from simworld.core import H
from . import common

NPLANS = {"quick": 50, "thorough": 2000}
RULE = (
    "plan i = H(seed,'C13',i): 2-6 corpus reactions rich in MCS rows, swarm batching/workers/schedule, 30% with MCS-stage "
    "faults (same faults in every run of the plan); thresholds T = {0,1} u {c, nextafter(c,0), nextafter(c,1), c-0.001, c+0.001 : "
    "c observed} u 2 uniform draws (<=10 per plan quick, <=16 thorough). Non-trivial: the plan has >=1 mcs-based row and a "
    "threshold that separates it from another row or from t=0; distinct by (rows, config, thresholds)."
)
NUM = re.compile(r"\d+(?:\.\d+)?")


def gen_plan(base_seed, i, tier):
    rng = common.rng_for(base_seed, "C13", i)
    rows = common.pick_rows(rng, rng.randint(1, 4), {"mcs-based": 10})
    rows += common.pick_rows(rng, rng.randint(0, 2), {"rule-based": 1, "input-balanced": 1, "declined": 2})
    if rng.random() < 0.3:  # the same reaction more than once in a batch
        rows += [rng.choice(rows) for _ in range(rng.randint(1, 2))]
    rng.shuffle(rows)
    cfg = common.gen_config(rng, len(rows), thresholds=(0,))
    sim = common.gen_sim(rng, faults=rng.random() < 0.3)
    if sim.get("faults"):
        sim["faults"]["zombie_q"] = 0.0
    plan = {"property": "C13", "kind": "sweep", "rows": rows, "config": cfg, "sim": sim,
            "draws": [round(rng.random(), 4), rng.choice([round(rng.random(), 2), 1, 1e-6, 0.123456789, 0.999999, 0.5])], "max_t": 10 if tier == "quick" else 16}
    if rng.random() < 0.3:
        # the same thresholds once more on ONE Balancer object, set through its public attribute between calls
        plan["same_object_order"] = rng.choice(["ascending", "descending", "shuffled"])
        plan["same_object_seed"] = rng.getrandbits(16)
    if rng.random() < 0.2:
        # the scoring step itself fails at its k-th call: batches may be lost, but no returned row may escape the threshold
        plan["model_fault_calls"] = sorted({rng.randint(0, 3) for _ in range(2)})
    return plan


def names_threshold(issue, t):
    """The issue text contains a number equal to t as a fraction or as a percentage (to printed precision)."""
    for m in NUM.findall(issue or ""):
        x = float(m)
        dec = len(m.split(".")[1]) if "." in m else 0
        tol = 0.5 * 10 ** (-dec) + 1e-12
        if abs(x - t) <= tol or abs(x - 100 * t) <= tol:
            return True
    return False


def execute(plan):
    from simworld import runner, oracles

    rows_in = plan["rows"]
    out = {"violations": [], "nontrivial": None, "summary": [], "runs": 0}

    def run(t):
        cfg = dict(plan["config"])
        cfg["threshold"] = t
        r = runner.run_once({"rows": rows_in, "config": cfg, "sim": plan["sim"]})
        out["runs"] += 1
        out["summary"].append(common.run_summary(r))
        return r

    if plan.get("thresholds") is not None:
        ts = list(plan["thresholds"])
        base = run(0)
    else:
        base = run(0)
        confs = sorted({r["confidence"] for r in (base["rows"] or []) if r["solved_by"] == "mcs-based" and r["confidence"] is not None})
        ts = [1.0]
        for c in confs:
            ts += [c, math.nextafter(c, 0.0), math.nextafter(c, 1.0), round(c - 0.001, 3), round(c + 0.001, 3)]
        ts += plan.get("draws", [])
        ts = [t for t in dict.fromkeys(ts) if 0.0 <= t <= 1.0][: plan.get("max_t", 10)]
    vs = []
    if base["rows"] is None or len(base["rows"]) != len(rows_in):
        out["note"] = "base run lost rows: C05/C06 business"
        return out
    results = {0: base}
    for t in ts:
        if t not in results:
            results[t] = run(t)
    separating = False
    for t, res in sorted(results.items()):
        rows = res["rows"]
        if rows is None or len(rows) != len(rows_in):
            vs.append(oracles.V("C13", "run_differs_in_shape", "shape", "threshold %r: run returned %s rows (threshold 0 returned %d)" % (t, None if rows is None else len(rows), len(rows_in))))
            continue
        for inp, row, brow in zip(rows_in, rows, base["rows"]):
            if brow["solved_by"] == "mcs-based":
                c = row["confidence"]
                if row["solved_by"] != "mcs-based":
                    vs.append(oracles.V("C13", "method_depends_on_threshold", "solved_by", "threshold %r: %s is %r, at threshold 0 it is mcs-based" % (t, inp, row["solved_by"])))
                    continue
                if c is None or not (0.0 <= c <= 1.0):
                    vs.append(oracles.V("C13", "confidence_out_of_range", "range", "threshold %r: %s has confidence %r" % (t, inp, c)))
                    continue
                if c != brow["confidence"]:
                    vs.append(oracles.V("C13", "confidence_depends_on_threshold", "confidence", "%s: confidence %r at threshold %r but %r at threshold 0" % (inp, c, t, brow["confidence"])))
                want = c >= t
                if row["solved"] != want:
                    vs.append(oracles.V("C13", "wrong_side_of_threshold", "solved=%s" % row["solved"], "%s: confidence %r, threshold %r, reported solved=%s" % (inp, c, t, row["solved"])))
                if not want and row["solved"] is False:
                    separating = True
                    if not names_threshold(row["issue"], t):
                        vs.append(oracles.V("C13", "issue_does_not_name_threshold", "issue", "%s: demoted at threshold %r but issue is %r" % (inp, t, row["issue"])))
                if want and row["solved"]:
                    diff = oracles.rows_equal(row, brow)
                    if diff:
                        vs.append(oracles.V("C13", "kept_row_changed", ",".join(diff), "%s: kept at threshold %r but differs from threshold 0 in %s" % (inp, t, diff)))
                if not want and row["reaction"] != brow["reaction"]:
                    pass  # what a demoted row's reaction column holds is not part of this property
            else:
                diff = oracles.rows_equal(row, brow)
                if diff:
                    vs.append(oracles.V("C13", "other_row_depends_on_threshold", ",".join(diff), "%s (%r at threshold 0) differs at threshold %r in %s: %r vs %r" % (inp, brow["solved_by"], t, diff, {k: row[k] for k in diff}, {k: brow[k] for k in diff})))
    # antitone: solved set shrinks as t grows
    order = sorted(results)
    for a, b in zip(order, order[1:]):
        ra, rb = results[a]["rows"], results[b]["rows"]
        if ra is None or rb is None or len(ra) != len(rb):
            continue
        for inp, x, y in zip(rows_in, ra, rb):
            if y["solved"] and not x["solved"]:
                vs.append(oracles.V("C13", "not_antitone", "antitone", "%s unsolved at threshold %r but solved at %r" % (inp, a, b)))
    if plan.get("same_object_order") and base["rows"] is not None:
        import random

        runner.setup()
        order = sorted(results)
        if plan["same_object_order"] == "descending":
            order.reverse()
        elif plan["same_object_order"] == "shuffled":
            random.Random(plan.get("same_object_seed", 0)).shuffle(order)
        bal = runner.make_balancer(dict(plan["config"], threshold=order[0]))  # first threshold through the constructor
        for t in order:
            bal.confidence_threshold = t
            r = runner.run_once({"rows": rows_in, "config": dict(plan["config"], threshold=t), "sim": plan["sim"]}, balancer=bal)
            out["runs"] += 1
            out["summary"].append(common.run_summary(r))
            fresh = results[t]
            if r["rows"] != fresh["rows"] or r["stats"] != fresh["stats"]:
                k = next((i for i, (a, b) in enumerate(zip(r["rows"] or [], fresh["rows"] or [])) if a != b), 0)
                diff = oracles.rows_equal((r["rows"] or [{}])[k] if r["rows"] else {}, (fresh["rows"] or [{}])[k] if fresh["rows"] else {}) if r["rows"] and fresh["rows"] else ["rows"]
                vs.append(oracles.V("C13", "result_depends_on_earlier_threshold", ",".join(diff) or "stats", "threshold %r set on a Balancer that was used before with %s thresholds: row %d (%s) / stats differ from a fresh Balancer with that threshold: %r vs %r" % (
                    t, plan["same_object_order"], k, rows_in[k] if k < len(rows_in) else None, (r["rows"] or [None] * (k + 1))[k] if r["rows"] else r["exc"], (fresh["rows"] or [None] * (k + 1))[k] if fresh["rows"] else fresh["exc"])))
                break
    for k in plan.get("model_fault_calls") or []:
        for t in [x for x in ts if x > 0][:3] + [1.0]:
            cfg = dict(plan["config"])
            cfg["threshold"] = t
            sim = common.clone(plan["sim"])
            f = sim.setdefault("faults", {"zombie_q": 0.0})
            f.setdefault("explicit", []).append({"site": "model", "key": [k], "kind": "raise"})
            r = runner.run_once({"rows": rows_in, "config": cfg, "sim": sim})
            out["runs"] += 1
            out["summary"].append(common.run_summary(r))
            for row in r["rows"] or []:
                if row["solved_by"] == "mcs-based":
                    c = row["confidence"]
                    if row["solved"] and (c is None or c < t):
                        vs.append(oracles.V("C13", "solved_below_threshold_after_scoring_fault", "model_fault", "scoring failed at call %d, threshold %r: %s returned solved with confidence %r" % (k, t, row["input_reaction"], c)))
    out["violations"] = vs
    if separating:
        out["nontrivial"] = "%016x" % H(rows_in, plan["config"], ts)
    out["sample"] = {"rows": rows_in, "config": plan["config"], "thresholds": sorted(results),
                     "confidences": [r["confidence"] for r in base["rows"]],
                     "solved_by_threshold": {str(t): [r["solved"] for r in (res["rows"] or [])] for t, res in sorted(results.items())}}
    out["thresholds_used"] = sorted(results)
    return out


def shrink(plan):
    n = len(plan["rows"])
    if n > 1:
        for j in range(n):
            p = common.clone(plan)
            del p["rows"][j]
            yield p
    if plan["sim"].get("faults"):
        p = common.clone(plan)
        p["sim"].pop("faults")
        yield p
    if plan["sim"].get("clock"):
        p = common.clone(plan)
        p["sim"].pop("clock")
        yield p
    for k, v in (("batch_size", None), ("n_jobs", 1)):
        if plan["config"].get(k) != v:
            p = common.clone(plan)
            p["config"][k] = v
            yield p
    if plan.get("max_t", 10) > 4:
        p = common.clone(plan)
        p["max_t"] = 4
        yield p
