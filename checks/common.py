"""Shared plan generators and helpers for the property checks.

A *plan* is pure JSON data produced from (base seed, property, index); executing a plan is a
pure function of the plan and the code under /repo (PYTHONHASHSEED pinned).
"""

import copy
import json
import os
import random

from simworld.core import H

HERE = os.path.dirname(os.path.dirname(os.path.abspath(__file__)))
PUBLIC = ("input_reaction", "reaction", "solved", "solved_by", "confidence", "rules", "issue")

_corpus = None


def corpus():
    global _corpus
    if _corpus is None:
        with open(os.path.join(HERE, "corpus", "reactions.json")) as f:
            items = json.load(f)
        by_tag = {}
        for it in items:
            for t in it["tags"]:
                by_tag.setdefault(t, []).append(it["rsmi"])
        _corpus = {"all": [it["rsmi"] for it in items], "by_tag": by_tag}
    return _corpus


_pool = None
CURRENT_TIER = "quick"
POOL_SHARE = 0.4


def pool():
    """Shipped validation-set reactions pre-screened by tools/build_pool.py (thorough tiers only)."""
    global _pool
    if _pool is None:
        try:
            with open(os.path.join(HERE, "corpus", "validation_pool.json")) as f:
                _pool = [it["rsmi"] for it in json.load(f)]
        except OSError:
            _pool = []
    return _pool


def rng_for(base_seed, prop, i):
    return random.Random(H(base_seed, prop, i))


def pick_rows(rng, n, weights=None):
    """n corpus reactions; `weights` maps tag -> relative weight (others share weight 1)."""
    c = corpus()
    out = []
    tags = list((weights or {}).items())
    total = sum(w for _, w in tags) + 1.0
    for _ in range(n):
        if CURRENT_TIER == "thorough" and pool() and rng.random() < POOL_SHARE:
            out.append(rng.choice(pool()))
            continue
        u = rng.random() * total
        acc = 0.0
        chosen = None
        for t, w in tags:
            acc += w
            if u < acc and c["by_tag"].get(t):
                chosen = rng.choice(c["by_tag"][t])
                break
        if chosen is None:
            chosen = rng.choice(c["all"])
        out.append(chosen)
    return out


def maybe_pair(rng, rows, prob=0.15):
    """Sometimes put both members of a same-reactants / different-products pair into the workload."""
    if rng.random() >= prob:
        return rows
    bt = corpus()["by_tag"]
    keys = sorted(k for k in bt if k.startswith("pair:"))
    if not keys:
        return rows
    a, b = bt[rng.choice(keys)][:2]
    if rng.random() < 0.5:
        a, b = b, a
    rows.insert(rng.randint(0, len(rows)), a)
    rows.insert(rng.randint(0, len(rows)), b)
    return rows


def gen_config(rng, n_rows, thresholds=(0,)):
    bs = rng.choice([None, None, 1, 2, 3, n_rows, n_rows + 1, rng.randint(1, max(n_rows, 1))])
    return {
        "n_jobs": rng.choice([1, 1, 2, 4, 16, -1]),
        "batch_size": bs,
        "threshold": rng.choice(list(thresholds)),
    }


FAULT_MENU = {
    "mcs_job": {"timeout": 1.0, "hang": 0.3},
    "frag_job": {"timeout": 1.0, "exception": 1.0},
    "fmcs": {"cancel": 1.0, "raise": 0.5},
    "fmces": {"empty": 1.0, "raise": 0.5},
}


def gen_faults(rng, sites=None):
    """Swarm: a random subset of fault sites/kinds, one rate per run."""
    rate = rng.choice([0.02, 0.1, 0.1, 0.3, 0.3, 0.6])
    rates = {}
    for site, kinds in FAULT_MENU.items():
        if sites is not None and site not in sites:
            continue
        if rng.random() < 0.6:
            rates[site] = {k: round(rate * w, 4) for k, w in kinds.items() if rng.random() < 0.8}
    if not rates:
        site = rng.choice(sorted(sites or FAULT_MENU))
        rates[site] = {k: round(rate * w, 4) for k, w in FAULT_MENU[site].items()}
    out = {"rates": rates, "zombie_q": rng.choice([0.0, 0.05, 0.5, 0.5, 1.0])}
    if rng.random() < 0.5:
        out["wake_sites"] = ["get_largest_condition", "find_graph_dict", "find", "run", "impute_reaction", "build_compounds", "ensemble_mcs"]
    return out


def gen_sim(rng, faults=False, sites=None):
    sim = {"sched_seed": rng.getrandbits(48)}
    if rng.random() < 0.3:
        sim["clock"] = {
            "skew0": rng.choice([0.0, -3.0e8, 3.0e8]),
            "jump_rate": rng.choice([0.0, 0.2, 1.0]),
            "jump_mag": rng.choice([11.0, 3600.0, 3.0e8]),
        }
    if faults:
        sim["faults"] = gen_faults(rng, sites)
    return sim


def plan_size(plan):
    return len(json.dumps(plan))


def signature(v):
    return (v["property"], v["clause"], v["key"])


# ----------------------------------------------------------------------------- reference rows
_ref_memo = {}


def reference_row(rsmi):
    """Fault-free simulated run of the reaction alone (n_jobs=1, threshold 0, no cache)."""
    from simworld import runner

    if rsmi in _ref_memo:
        return _ref_memo[rsmi]
    r = runner.run_once({"rows": [rsmi], "config": {"n_jobs": 1, "threshold": 0}, "sim": {"sched_seed": 0}})
    row = r["rows"][0] if r["rows"] and len(r["rows"]) == 1 else None
    _ref_memo[rsmi] = (row, r["stats"])
    return _ref_memo[rsmi]


def run_summary(res):
    """The part of a run result that goes into evidence aggregation."""
    return {
        "fired": res.get("fired", {}),
        "probes": res.get("probes", {}),
        "simtime": res.get("simtime", 0.0),
        "events": res.get("events", 0),
        "interleave": res.get("interleave"),
        "par_tasks": res.get("par_tasks", 0),
        "zombies": res.get("zombies", 0),
        "digest": res.get("digest"),
    }


def merge_summaries(sums):
    out = {"fired": {}, "probes": {}, "simtime": 0.0, "events": 0, "interleaves": [], "par_tasks": 0, "zombies": 0, "digests": []}
    for s in sums:
        for k, v in s["fired"].items():
            out["fired"][k] = out["fired"].get(k, 0) + v
        for k, v in s["probes"].items():
            out["probes"][k] = out["probes"].get(k, 0) + v
        out["simtime"] += s["simtime"]
        out["events"] += s["events"]
        out["par_tasks"] += s["par_tasks"]
        out["zombies"] += s["zombies"]
        if s.get("interleave"):
            out["interleaves"].append(s["interleave"])
        out["digests"].append(s.get("digest"))
    return out


def clone(x):
    return copy.deepcopy(x)
