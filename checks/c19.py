"""C19: the rule database stays consistent under any sequence of edits.

History search against a reference model (the fault-free form of the technique): RuleImputeManager is
an in-memory object without I/O, clock or concurrency, so no fault kind applies; the only 'failure' is
a rejected operation and the claim checked there is atomicity of rejection.

Exhaustive: all histories up to length L (4 quick, 5 thorough) from the empty database over the
alphabet below. Seeded: histories of length 5-40 from the empty database and from both shipped rule files.
"""

import copy
import gzip
import io
import json
import os
import sys

from simworld.core import H
from . import common

NPLANS = {"quick": 300, "thorough": 1500}
RULE = (
    "exhaustive plans: every operation sequence of length <= L (L=4 quick, 5 thorough) from the empty database over a 19-letter "
    "alphabet (add of valid neutral / charged / mixture / explicit-H / isotopic compounds, invalid SMILES, duplicate formula with new "
    "SMILES, duplicate SMILES with new formula; add_entries of mixed validity with internal duplicates; remove present/absent), split "
    "by first letters across plans; every triple a,b,c of letters as a, reopen, b, reopen, c where reopen hands the database to a new manager (deep copy, or the repository's save_database/load_database through a scratch file); seeded plans i = H(seed,'C19',i): 20 histories of length 5-40 (7% reopen steps) from {empty, rules_manager.json.gz, "
    "automated_rules.json.gz}. After every step the database is compared with a list model. Non-trivial: history contains >=1 "
    "accepted and >=1 rejected operation; distinct by the operation sequence and start state."
)

COMPOUNDS = [
    ("H2O", "O"),
    ("CO2", "O=C=O"),
    ("NaCl", "[Na+].[Cl-]"),
    ("NH4+", "[NH4+]"),
    ("OH-", "[OH-]"),
    ("H2", "[H][H]"),
    ("D2O", "[2H]O[2H]"),
    ("AcOH", "CC(=O)O"),
    ("CH4", "[H]C([H])([H])[H]"),
    ("HCl", "Cl"),
    ("Thorium", "[Th]"),
    ("Uranium", "[U]"),
    ("CH4O", "CO"),            # a SMILES string that is also somebody else's formula
    ("CO", "[C-]#[O+]"),
    ("HO-", "[OH-]"),
    ("NH3", "N"), ("H3N", "N"), ("Cl2", "ClCl"),              # keys that are duplicated in the shipped rule file
    ("O^2-", "[O-2]"), ("O2-", "[O][O-]"), ("S^2-", "[S-2]"), ("S2-", "[S][S-]"), ("SO4 2-", "[O-]S(=O)(=O)[O-]"),
]
ALPHABET = [
    ["add", "H2O", "O"],
    ["add", "NaCl", "[Na+].[Cl-]"],
    ["add", "NH4+", "[NH4+]"],
    ["add", "CH4", "[H]C([H])([H])[H]"],
    ["add", "D2O", "[2H]O[2H]"],
    ["add", "Bad", "C1CC"],                 # invalid SMILES
    ["add", "H2O", "[OH2]"],                # duplicate formula, new SMILES
    ["add", "Water", "O"],                  # duplicate SMILES, new formula
    ["add", "OH-", "[OH-]"],
    ["bulk", [["CO2", "O=C=O"], ["Bad2", "C(C)(C)(C)(C)C"], ["CO2", "C(=O)=O"], ["H2", "[H][H]"]]],
    ["bulk", [["H2O", "O"], ["NaCl", "[Na+].[Cl-]"], ["H2O", "O"]]],
    ["bulk", [["CH4", "[H]C([H])([H])[H]"], ["NH4+", "[NH4+]"], ["Water", "O"], ["Bad3", "xx"], ["D2O", "[2H]O[2H]"]]],   # third entry: SMILES maybe present under another formula
    ["remove", "H2O"],
    ["remove", "NaCl"],
    ["remove", "Nope"],
    ["remove", "CO2"],
    ["add", "CH4O", "CO"],
    ["add", "CO", "[C-]#[O+]"],
    ["remove", "CO"],
    ["remove", "O"],                        # no entry has this formula (it is water's SMILES)
    ["extract", ["CCO", "COC", "O", "C1CC", "CCO"]],   # automatic extraction: isomers share a formula, one invalid, one repeated
    ["extract", ["[NH4+]", "O=C=O", "[Na+].[Cl-]"]],
]
def _big_extract():
    """~100 distinct small molecules with many constitutional isomers (shared formulas)."""
    out = []
    for n in range(1, 7):
        chain = "C" * n
        out += [chain, chain + "O", chain + "N", chain + "Cl", chain + "=O" if n > 1 else "C=O", chain + "S", chain + "Br", chain + "F"]
        for k in range(1, n):
            out += ["C" * k + "O" + "C" * (n - k), "C" * k + "N" + "C" * (n - k), "C" * k + "S" + "C" * (n - k)]
        if n >= 3:
            out += ["CC(C)" + "C" * (n - 3) + "O", "CC(O)" + "C" * (n - 2), "C1" + "C" * (n - 1) + "1", "CC(C)" + "C" * (n - 3) + "N", "CC(=O)" + "C" * (n - 2)]
    return list(dict.fromkeys(out))


BIG_EXTRACT = _big_extract()
STARTS = ["empty", "rules_manager", "automated_rules", "foreign_records", "dataframe"]


def _load_start(name):
    repo = os.environ.get("SYNRBL_REPO", "/repo")
    if name == "empty":
        return []
    if name == "foreign_records":
        # records that were not produced by add_entry in this session: keys missing or in another order
        return [{"smiles": "O", "formula": "H2O"}, {"Composition": {"C": 1, "O": 2, "Q": 0}, "smiles": "O=C=O", "formula": "CO2"},
                {"formula": "NH4+", "smiles": "[NH4+]", "Composition": {"N": 1, "H": 4, "Q": 1}, "source": "manual"},
                {"formula": "NaCl", "smiles": "[Na+].[Cl-]"}]
    if name == "dataframe":
        import pandas as pd

        return pd.DataFrame(_load_start("rules_manager"))
    p = {"rules_manager": os.path.join(repo, "synrbl", "SynRuleImputer", "rules_manager.json.gz"),
         "automated_rules": os.path.join(repo, "Data", "Rules", "automated_rules.json.gz")}[name]
    with open(p, "rb") as f:
        raw = f.read()
    if raw[:2] == b"\x1f\x8b":
        raw = gzip.decompress(raw)
    return json.loads(raw.decode())


def gen_plan(base_seed, i, tier):
    rng = common.rng_for(base_seed, "C19", i)
    hists = []
    for _ in range(20):
        n = rng.randint(5, 40)
        ops = []
        for _ in range(n):
            u = rng.random()
            if u < 0.07:
                ops.append(["reopen", rng.choice(["copy", "file"])])
            elif u < 0.55:
                f, s = rng.choice(COMPOUNDS)
                if rng.random() < 0.15:
                    f = f + "_alt"
                if rng.random() < 0.1:
                    s = rng.choice(["C1CC", "xx", "C(C)(C)(C)(C)C", ""])
                ops.append(["add", f, s])
            elif u < 0.6:
                k = rng.randint(1, 5)
                ops.append(["extract", [rng.choice(COMPOUNDS)[1] if rng.random() < 0.85 else rng.choice(["C1CC", "xx", "CCO", "COC"]) for _ in range(k)]])
            elif u < 0.7:
                k = rng.randint(1, 4)
                ents = [list(rng.choice(COMPOUNDS)) if rng.random() < 0.8 else ["Bad%d" % rng.randint(0, 3), "C1CC"] for _ in range(k)]
                for e in ents:
                    if rng.random() < 0.2:
                        e[0] = e[0] + "_alt"  # another formula for a SMILES that may already be present
                ops.append(["bulk", ents])
            else:
                ops.append(["remove", rng.choice(COMPOUNDS)[0] if rng.random() < 0.8 else rng.choice(["Nope", "Cl2", "H2O", "NH3", "H3N", "Br2", "O", "N", "CO", "Cl", "[OH-]", "O2-", "S2-", "SO42-", "S^2-"])])
        hists.append({"start": rng.choice(STARTS), "ops": ops})
    return {"property": "C19", "kind": "seeded", "histories": hists}


def extra_plans(tier, base_seed):
    L = 4 if tier == "quick" else 5
    plans = [{"property": "C19", "kind": "start_states"}]
    for st in ("empty", "automated_rules"):
        # one bulk extraction of ~100 distinct fragments with many isomer pairs, then ordinary edits
        plans.append({"property": "C19", "kind": "seeded", "histories": [{"start": st, "ops": [["extract", BIG_EXTRACT], ["add", "C2H6O", "OCC"], ["remove", "C2H6O"], ["extract", BIG_EXTRACT[::-1]]]}]})
    for a in range(len(ALPHABET)):
        plans.append({"property": "C19", "kind": "exhaustive", "first": a, "length": L})
    # every triple of letters with the database persisted and reopened between the edits (a, reopen, b, reopen, c)
    for a in range(len(ALPHABET)):
        plans.append({"property": "C19", "kind": "exhaustive_reopen", "first": a, "mode": ["copy", "file"][a % 2]})
    return plans


def run_history(start, ops, start_db=None):
    """Returns (violations, accepted, rejected)."""
    from simworld import oracles, runner
    from synrbl.SynRuleImputer.rule_data_manager import RuleImputeManager

    vs = []
    db0 = copy.deepcopy(start_db if start_db is not None else _load_start(start))
    mgr = RuleImputeManager(copy.deepcopy(db0))
    if not isinstance(db0, list):
        db0 = db0.to_dict("records")
    model = [(e["formula"], e["smiles"]) for e in db0]
    # shipped entries are judged once, by start_state_findings; recognised by value so that a reopen (copy / file round trip) keeps them exempt
    start_keys = {json.dumps(e, sort_keys=True, default=str) for e in db0}
    start_formula = {}
    start_smiles = {}
    for f, s in model:
        start_formula[f] = start_formula.get(f, 0) + 1
        start_smiles[s] = start_smiles.get(s, 0) + 1
    acc = rej = 0

    def valid(s):
        return isinstance(s, str) and oracles._mol_info(s) is not None

    def model_add(f, s):
        if any(x[0] == f for x in model) or any(x[1] == s for x in model) or not valid(s):
            return False
        model.append((f, s))
        return True

    def check(step, op):
        db = mgr_box[0].database
        got = [(e.get("formula"), e.get("smiles")) for e in db]
        if got != model:
            vs.append(oracles.V("C19", "database_differs_from_model", op[0], "start=%s after step %d %r: database %r, model %r" % (start, step, op, got[-4:], model[-4:])))
            return False
        cf, cs = {}, {}
        for f, s in got:
            cf[f] = cf.get(f, 0) + 1
            cs[s] = cs.get(s, 0) + 1
        for f, n in cf.items():
            if n > max(1, start_formula.get(f, 0)):
                vs.append(oracles.V("C19", "duplicate_formula", op[0], "start=%s after step %d %r: formula %r occurs %d times" % (start, step, op, f, n)))
        for s, n in cs.items():
            if n > max(1, start_smiles.get(s, 0)):
                vs.append(oracles.V("C19", "duplicate_smiles", op[0], "start=%s after step %d %r: SMILES %r occurs %d times" % (start, step, op, s, n)))
        for e in db:
            if json.dumps(e, sort_keys=True, default=str) in start_keys:
                continue
            comp = e.get("Composition")
            truth = oracles.side_comp(e["smiles"])
            if truth is None:
                vs.append(oracles.V("C19", "invalid_smiles_in_database", op[0], "start=%s after step %d %r: entry %r has an invalid SMILES" % (start, step, op, e)))
                continue
            want = dict(truth[0])
            if not isinstance(comp, dict) or "Q" not in comp or {k: v for k, v in comp.items() if k != "Q"} != want or comp["Q"] != truth[1]:
                vs.append(oracles.V("C19", "composition_wrong", op[0], "start=%s after step %d %r: entry %s/%s records %r, true composition %r charge %d" % (start, step, op, e["formula"], e["smiles"], comp, want, truth[1])))
        return True

    mgr_box = [mgr]
    with runner.quiet():
        for step, op in enumerate(ops):
            mgr = mgr_box[0]
            before = copy.deepcopy(mgr.database)
            if op[0] == "add":
                ok = model_add(op[1], op[2])
                try:
                    mgr.add_entry(op[1], op[2])
                    raised = None
                except ValueError as e:
                    raised = e
                except Exception as e:  # wrong exception type
                    raised = e
                    vs.append(oracles.V("C19", "wrong_exception", type(e).__name__, "start=%s step %d %r raised %r" % (start, step, op, e)))
                if ok and raised is not None:
                    vs.append(oracles.V("C19", "valid_add_rejected", "add", "start=%s step %d %r rejected: %s" % (start, step, op, raised)))
                if not ok:
                    rej += 1
                    if raised is None:
                        vs.append(oracles.V("C19", "invalid_add_accepted", "add", "start=%s step %d %r accepted (duplicate or invalid)" % (start, step, op)))
                    elif mgr.database != before:
                        vs.append(oracles.V("C19", "rejected_add_changed_database", "add", "start=%s step %d %r was rejected but changed the database" % (start, step, op)))
                else:
                    acc += 1
            elif op[0] == "bulk":
                entries = [{"formula": f, "smiles": s} for f, s in op[1]]
                want_rejected = []
                for f, s in op[1]:
                    if not model_add(f, s):
                        want_rejected.append({"formula": f, "smiles": s})
                        rej += 1
                    else:
                        acc += 1
                try:
                    got_rej = mgr.add_entries(copy.deepcopy(entries))
                except Exception as e:
                    vs.append(oracles.V("C19", "bulk_add_raised", type(e).__name__, "start=%s step %d %r raised %r" % (start, step, op, e)))
                    got_rej = None
                if got_rej is not None and [(e.get("formula"), e.get("smiles")) for e in got_rej] != [(e["formula"], e["smiles"]) for e in want_rejected]:
                    vs.append(oracles.V("C19", "bulk_rejected_list_wrong", "bulk", "start=%s step %d %r returned rejected=%r, expected %r" % (start, step, op, got_rej, want_rejected)))
            elif op[0] == "reopen":
                # persistence between edits: the database leaves this manager and a new manager is built on what came back.
                # 'copy' = deep copy; 'file' = the repository's own save_database / load_database through a scratch file.
                try:
                    if op[1] == "file":
                        import shutil
                        import tempfile
                        from synrbl.SynUtils.data_utils import load_database, save_database

                        d = tempfile.mkdtemp(prefix="c19db-")
                        try:
                            save_database(mgr.database, os.path.join(d, "db.json"))
                            back = load_database(os.path.join(d, "db.json"))
                        finally:
                            shutil.rmtree(d, ignore_errors=True)
                    else:
                        back = copy.deepcopy(mgr.database)
                    mgr = RuleImputeManager(back)
                except Exception as e:
                    vs.append(oracles.V("C19", "reopen_raised", type(e).__name__, "start=%s step %d %r raised %r" % (start, step, op, e)))
            elif op[0] == "extract":
                from rdkit import Chem
                from rdkit.Chem import rdMolDescriptors
                from synrbl.SynRuleImputer.auto_extract_rules import AutomaticRulesExtraction

                for smi in op[1]:
                    m = Chem.MolFromSmiles(smi) if isinstance(smi, str) else None
                    f = rdMolDescriptors.CalcMolFormula(m) if m is not None else None
                    if model_add(f, smi):
                        acc += 1
                    else:
                        rej += 1
                try:
                    ext = AutomaticRulesExtraction(existing_database=mgr.database, n_jobs=1, verbose=0)
                    ext.add_new_entries({"smiles": list(op[1])})
                    extracted = ext.extract_rules()
                    mgr = RuleImputeManager(extracted)
                except Exception as e:
                    vs.append(oracles.V("C19", "extraction_raised", type(e).__name__, "start=%s step %d %r raised %r" % (start, step, op, e)))
            else:
                for k, (f, s) in enumerate(model):
                    if f == op[1]:
                        del model[k]
                        break
                try:
                    mgr.remove_entry(op[1])
                except Exception as e:
                    vs.append(oracles.V("C19", "remove_raised", type(e).__name__, "start=%s step %d %r raised %r" % (start, step, op, e)))
            mgr_box[0] = mgr
            if not check(step, op) or len(vs) > 3:
                break
    return vs, acc, rej


def start_state_findings(name):
    """Defects already present in a shipped rule file (data), reported once per key."""
    from simworld import oracles

    vs = []
    db = _load_start(name)
    cf, cs = {}, {}
    for e in db:
        cf[e["formula"]] = cf.get(e["formula"], 0) + 1
        cs[e["smiles"]] = cs.get(e["smiles"], 0) + 1
    for f, n in sorted(cf.items()):
        if n > 1:
            vs.append(oracles.V("C19", "start_state_duplicate", "%s:formula:%s" % (name, f), "shipped %s holds formula %r %d times" % (name, f, n)))
    for s, n in sorted(cs.items()):
        if n > 1:
            vs.append(oracles.V("C19", "start_state_duplicate", "%s:smiles:%s" % (name, s), "shipped %s holds SMILES %r %d times" % (name, s, n)))
    for e in db:
        truth = oracles.side_comp(e["smiles"])
        comp = e.get("Composition") or {}
        if truth is None or {k: v for k, v in comp.items() if k != "Q"} != dict(truth[0]) or comp.get("Q", 0) != truth[1]:
            vs.append(oracles.V("C19", "start_state_composition", "%s:%s" % (name, e["formula"]), "shipped %s entry %r: true composition %r" % (name, e, truth)))
    return vs


def execute(plan):
    from simworld import runner

    runner.setup()
    out = {"violations": [], "nontrivial": None, "summary": [], "runs": 0, "nontrivial_many": []}
    vs = []
    if plan["kind"] == "seeded":
        for h in plan["histories"]:
            v, acc, rej = run_history(h["start"], h["ops"])
            out["runs"] += 1
            for x in v:
                x["subplan"] = {"property": "C19", "kind": "seeded", "histories": [h]}
            vs += v
            if acc and rej:
                out["nontrivial_many"].append("%016x" % H(h))
        out["sample"] = {"start": plan["histories"][0]["start"], "ops": plan["histories"][0]["ops"][:12]}
    elif plan["kind"] == "start_states":
        for name in ("rules_manager", "automated_rules"):
            vs += start_state_findings(name)
            out["runs"] += 1
        out["sample"] = {"start_states_checked": STARTS[1:]}
    elif plan["kind"] == "exhaustive_reopen":
        first = ALPHABET[plan["first"]]
        ro = ["reopen", plan["mode"]]
        for b in ALPHABET:
            for c in ALPHABET:
                ops = [first, ro, b, ro, c]
                v, acc, rej = run_history("empty", ops, start_db=[])
                out["runs"] += 1
                for x in v:
                    x["subplan"] = {"property": "C19", "kind": "seeded", "histories": [{"start": "empty", "ops": ops}]}
                vs += v
                if acc and rej:
                    out["nontrivial_many"].append("%016x" % H(ops))
                if len(vs) >= 4:
                    break
            if len(vs) >= 4:
                break
        out["sample"] = {"exhaustive_reopen_first_op": first, "mode": plan["mode"], "histories": out["runs"]}
    else:
        L = plan["length"]
        first = ALPHABET[plan["first"]]

        def rec(prefix):
            nonlocal vs
            v, acc, rej = run_history("empty", prefix, start_db=[])
            out["runs"] += 1
            for x in v:
                x["subplan"] = {"property": "C19", "kind": "seeded", "histories": [{"start": "empty", "ops": prefix}]}
            vs += v
            if acc and rej:
                out["nontrivial_many"].append("%016x" % H(prefix))
            if len(prefix) < L and len(vs) < 4:
                for op in ALPHABET:
                    rec(prefix + [op])

        rec([first])
        out["exhaustive_len"] = L
        out["sample"] = {"exhaustive_first_op": first, "length": L, "histories": out["runs"]}
    out["violations"] = vs[:6]
    return out


def shrink(plan):
    if plan["kind"] != "seeded" or len(plan["histories"]) != 1:
        return
    h = plan["histories"][0]
    for j in range(len(h["ops"])):
        p = common.clone(plan)
        del p["histories"][0]["ops"][j]
        yield p
    if h["start"] != "empty":
        p = common.clone(plan)
        p["histories"][0]["start"] = "empty"
        yield p
