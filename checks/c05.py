"""C05: one result row per input row, in input order, for every input form.

Malformed rows are data faults injected into the input stream (fault kind `poison_row`) at
plan-chosen positions of every batch layout; sources: list of str, list of dict, CSV/JSON
Dataset files, and the CLI entry point with --out-columns.
"""

from simworld.core import H
from . import common

NPLANS = {"quick": 400, "thorough": 4000}
RULE = (
    "plan i = H(seed,'C05',i): 1-8 valid corpus rows with 0-3 poison rows (unparsable SMILES, no '>>', 'A>B>C', "
    "two '>>', empty side, empty string, missing value) at drawn positions, in 20% of plans a whole batch of 2-3 poison rows aligned to the batch size (also as last batch / before a one-row remainder); batch size in {None,1..n+1}, in 25% of non-CLI plans given through both routes (constructor value overridden by rebalance(batch_size=)); source in "
    "{list, dict, csv, json, cli with pass-through columns}; swarm n_jobs/schedule. Non-trivial: >=1 poison row and "
    ">=1 valid row in the same run; distinct by (rows, batch size, source)."
)

POISON = {
    "unparsable": ["CCO>>CCO.XX", "C1CC>>CCC", "CC(>>CC", "c1ccccc>>c1ccccc1", "[Zz]>>C", "CC>>C(C)(C)(C)(C)C"],
    "no_sep": ["CCO", "CCO>CCO", "CCO.CC"],
    "reagent_style": ["CCO>O>CC=O", "A>B>C", "CC(=O)O.CCO>[H+]>CC(=O)OCC"],
    "two_sep": ["CC>>O>>CC"],
    "empty_side": [">>CCO", "CCO>>", ">>"],
    "empty_string": ["", " "],
    "missing": [None],
    "empty_record": ["<EMPTY-RECORD>"],   # a row without any value: {} in dict/JSON sources, a blank line in CSV
}


def gen_plan(base_seed, i, tier):
    rng = common.rng_for(base_seed, "C05", i)
    n = rng.randint(1, 7)
    rows = common.pick_rows(rng, n, {"rule-based": 2, "input-balanced": 2, "mcs-based": 1, "declined": 1, "mapped": 1})
    if rng.random() < 0.3:  # the same reaction more than once (each copy keeps its own pass-through values)
        rows.insert(rng.randint(0, len(rows)), rng.choice(rows))
    source = rng.choice(["list", "list", "dict", "csv", "json", "cli"])
    npoison = rng.choice([0, 1, 1, 1, 2, 3])
    kinds = []
    for _ in range(npoison):
        kind = rng.choice(sorted(POISON))
        if kind in ("missing", "empty_record") and source in ("list", "cli"):
            kind = "empty_string"
        val = rng.choice(POISON[kind])
        pos = rng.randint(0, len(rows))
        rows.insert(pos, val)
        kinds.append(kind)
        if rng.random() < 0.2:  # the same malformed value twice
            rows.insert(rng.randint(0, len(rows)), val)
    aligned = None
    if rng.random() < 0.2:
        # a whole batch of malformed rows: a contiguous run of k poison rows starting at a multiple of k (batch size k below);
        # with some chance the run is the LAST batch, or is followed by a partial batch of one valid row
        k = rng.choice([2, 3])
        start = k * rng.randint(0, len(rows) // k)
        if rng.random() < 0.4:
            start = k * (len(rows) // k)
            del rows[start:]
        for j in range(k):
            kind = rng.choice([x for x in sorted(POISON) if x not in ("missing", "empty_record") or source not in ("list", "cli")])
            rows.insert(start + j, rng.choice(POISON[kind]))
            kinds.append(kind)
        if rng.random() < 0.5 and start + k == len(rows):
            rows.append("CCO>>CC=O")
        aligned = k
    if source == "cli":
        # the CLI validates the first row itself (check_columns); keep a valid row first
        if not isinstance(rows[0], str) or ">>" not in rows[0] or rows[0] in sum(POISON.values(), []):
            rows.insert(0, "CCO>>CCO")
    items = rows
    passthrough = []
    id_col = None
    if source != "list":
        nasty = ['a,b', 'say "hi"', "two\nlines", "x;y", "plain", "tab\there"]  # text that survives a CSV round trip unchanged
        items = [({} if r == "<EMPTY-RECORD>" else {"reaction": r, "tag": "t%d-%04x" % (k, rng.getrandbits(16)), "n": k * 7 + 1, "note": rng.choice(nasty)}) for k, r in enumerate(rows)]
        passthrough = ["tag", "n", "note"] if rng.random() < 0.5 else ["tag", "n"]
        if source in ("csv", "cli") and rng.random() < 0.3:
            # a pandas index column as left behind by DataFrame.to_csv of a filtered / re-sorted table
            labels = rng.sample(range(0, 10 * len(items) + 10), len(items))
            items = [(dict({"Unnamed: 0": lab}, **it) if it else it) for lab, it in zip(labels, items)]
        if rng.random() < 0.25:
            # the input already carries a column named like the tool's internal row id
            idk = rng.choice(["id", "id", "R-id", "index"])
            vals = list(range(len(items)))
            rng.shuffle(vals)
            style = rng.choice(["perm", "str", "big"])
            for it, v in zip(items, vals):
                if it:
                    it[idk] = v if style == "perm" else ("row-%d" % v if style == "str" else 1000 + 7 * v)
            if idk == "R-id" and source != "cli" and rng.random() < 0.5:
                id_col = "R-id"
        if source in ("dict", "json") and rng.random() < 0.3:
            # heterogeneous records: extra keys in some rows, other key order
            for it in items:
                if it and rng.random() < 0.4:
                    it["extra"] = rng.getrandbits(8)
                if it and rng.random() < 0.3:
                    for k2 in list(it)[:1]:
                        it[k2] = it.pop(k2)
    cfg = common.gen_config(rng, len(rows), thresholds=(0,))
    cfg["batch_size"] = rng.choice([None, 1, 2, 3, len(rows), len(rows) + 1, rng.randint(1, len(rows) + 1)])
    if aligned and rng.random() < 0.75:
        cfg["batch_size"] = aligned
    if source != "cli" and rng.random() < 0.25:
        # batch size through both routes: constructor value (any, also None) overridden by rebalance(..., batch_size=)
        cfg["call_batch_size"] = rng.choice([1, 2, 3, max(1, len(rows) - 1), len(rows), len(rows) + 1])
        cfg["batch_size"] = rng.choice([None, 1, 2, len(rows), len(rows) + 1, 50])
    if id_col:
        cfg["id_col"] = id_col
    return {
        "property": "C05",
        "kind": "poison",
        "rows": items,
        "source": source,
        "config": cfg,
        "sim": common.gen_sim(rng),
        "passthrough": passthrough,
        "poison_kinds": sorted(set(kinds)),
    }


def _rx(item):
    return item.get("reaction") if isinstance(item, dict) else item


def execute(plan):
    from simworld import runner, oracles

    items = plan["rows"]
    source = plan["source"]
    res = runner.run_once(plan)
    out = {"violations": [], "nontrivial": None, "summary": common.run_summary(res), "runs": 1}
    rows = res["rows"]
    vs = []
    kinds = ",".join(plan.get("poison_kinds") or []) or "none"
    where = "source=%s batch_size=%s%s" % (source, plan["config"].get("batch_size"), "" if plan["config"].get("call_batch_size") is None else " (constructor) overridden per call by %s" % plan["config"]["call_batch_size"])
    inputs = [_rx(it) for it in items]
    nvalid = sum(1 for s in inputs if oracles.is_valid_row(s))
    if rows is None:
        vs.append(oracles.V("C05", "run_raised", kinds, "%s: rebalance raised %s (%s) for inputs %r" % (where, res["exc"], res.get("exc_msg"), inputs)))
    elif len(rows) != len(items):
        vs.append(oracles.V("C05", "row_count", kinds, "%s: %d result rows for %d input rows %r" % (where, len(rows), len(items), inputs)))
    else:
        cli_rows = res.get("cli_rows")
        for k, (s, row) in enumerate(zip(inputs, rows)):
            if oracles.is_valid_row(s):
                ref, _ = common.reference_row(s)
                if ref is None:
                    continue
                diff = oracles.rows_equal(row, ref)
                if diff:
                    vs.append(oracles.V("C05", "row_not_for_its_input", kinds, "%s: row %d does not describe input %d (%s): differs from the solo result in %s: %r" % (where, k, k, s, diff, {c: row[c] for c in diff})))
            else:
                # a malformed row must still be represented by a row that names it
                shown = (row.get("input_reaction"), row.get("reaction"))
                if s is None or (isinstance(s, float)):
                    ok = all(x in (None, "", "nan") for x in shown)
                elif source in ("csv", "cli") and s.strip() == "":
                    ok = all(x in (None, "", " ", "nan") for x in shown)
                else:
                    ok = s in shown
                if not ok:
                    vs.append(oracles.V("C05", "malformed_row_misrepresented", kinds, "%s: row %d shows %r for malformed input %r" % (where, k, shown, s)))
            if cli_rows is not None and plan.get("passthrough"):
                for c in plan["passthrough"]:
                    if str(cli_rows[k].get(c)) != str(items[k].get(c)):
                        vs.append(oracles.V("C05", "passthrough_shifted", kinds, "%s: output row %d (%r) carries %s=%r, input row %d has %r" % (where, k, row.get("input_reaction"), c, cli_rows[k].get(c), k, items[k].get(c))))
                        break
    out["violations"] = vs
    if plan.get("poison_kinds") and nvalid >= 1:
        out["nontrivial"] = "%016x" % H(inputs, plan["config"].get("batch_size"), plan["config"].get("call_batch_size"), source)
    out["sample"] = {"inputs": inputs, "source": source, "batch_size": plan["config"].get("batch_size"), "n_jobs": plan["config"].get("n_jobs"), "rows_returned": None if rows is None else len(rows)}
    return out


def shrink(plan):
    items = plan["rows"]
    n = len(items)
    if n > 1:
        for j in range(n):
            p = common.clone(plan)
            del p["rows"][j]
            yield p
    if plan["source"] != "list" and all(_rx(it) is not None for it in items):
        p = common.clone(plan)
        p["source"] = "list"
        p["rows"] = [_rx(it) for it in items]
        p["passthrough"] = []
        yield p
    elif plan["source"] not in ("list", "dict"):
        p = common.clone(plan)
        p["source"] = "dict"
        yield p
    for k, v in (("call_batch_size", None), ("batch_size", None), ("n_jobs", 1)):
        if plan["config"].get(k) != v:
            p = common.clone(plan)
            p["config"][k] = v
            yield p
    if plan["sim"].get("clock"):
        p = common.clone(plan)
        p["sim"].pop("clock")
        yield p
