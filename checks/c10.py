"""C10: MCS search reports genuine, correctly attributed, largest common substructures.

Decided for the schedule / batch-composition / failed-entry part of the quantifier: batches that mix
rows solved before the MCS stage with rows that reach it (ids and positions disagree), permutations,
worker semantics, task completion orders, and job-level faults (timeout / hang of any subset of the
3 x n (reaction, condition) search jobs) so the three condition tables contain empty entries in every
shape, plus RDKit budget exhaustion (canceled FindMCS with a degraded pattern, empty/raising MCES)
inside the jobs. Zombie rate is 0 (a timed-out job never writes late) so the recorded tables are stable.

Observed through two outside taps: Balancer.columns gets 'mcs' appended; ExtractMCS.get_largest_condition
is wrapped to record its argument tables and result.
"""

from simworld.core import H
from . import common

NPLANS = {"quick": 150, "thorough": 3000}
RULE = (
    "plan i = H(seed,'C10',i): 2-7 corpus reactions (1-4 reaching the MCS stage, the rest solved earlier, shuffled), swarm "
    "batching/workers/schedule, 60% with mcs_job timeout/hang and/or FindMCS cancel/raise, FindMCES empty/raise faults at rate in {10%,30%,60%} (zombie rate 0); plus enumeration "
    "of all 2^(3n) failed/ok patterns of the condition tables for fixed batches with n<=2 MCS rows. Non-trivial: >=1 row carries a "
    "search result and the batch holds >=2 rows; distinct by (rows in order, config, failed-job set)."
)

ENUM_BATCHES = [
    ["CCO>>CCO", "COC(C)=O>>OC(C)=O", "CC(=O)O.CCO>>CC(=O)OCC", "CC(=O)OC(C)=O.Nc1ccccc1>>CC(=O)Nc1ccccc1"],
    ["CCOC(=O)c1ccccc1>>OC(=O)c1ccccc1", "CCO>>CCO", "CC(=O)Nc1ccccc1>>Nc1ccccc1"],
]


def gen_plan(base_seed, i, tier):
    rng = common.rng_for(base_seed, "C10", i)
    rows = common.pick_rows(rng, rng.randint(1, 4) if rng.random() < 0.8 else rng.randint(5, 9), {"mcs-based": 10, "no-mcs": 1, "carbon-surplus": 1.5, "dummy-atom": 0.5, "repeat-mcs": 1.5})
    rows += common.pick_rows(rng, rng.randint(1, 3), {"rule-based": 2, "input-balanced": 2, "declined": 1, "redox": 1})
    rng.shuffle(rows)
    cfg = common.gen_config(rng, len(rows), thresholds=(0,))
    sim = common.gen_sim(rng)
    if rng.random() < 0.6:
        rate = rng.choice([0.1, 0.3, 0.6])
        rates = {"mcs_job": {"timeout": rate, "hang": rate / 3}}
        if rng.random() < 0.5:
            # RDKit budget exhaustion / failures inside a job: entries with fewer or no patterns
            rates = {} if rng.random() < 0.5 else rates
            rates["fmcs"] = {"cancel": rate, "raise": rate / 4}
            rates["fmces"] = {"empty": rate / 2, "raise": rate / 4}
        sim["faults"] = {"rates": rates, "zombie_q": 0.0}
    return {"property": "C10", "kind": "run", "rows": rows, "config": cfg, "sim": sim, "tap": True}


def extra_plans(tier, base_seed):
    plans = []
    sel = [(0, 8)] if tier == "quick" else [(b, 16) for b in range(len(ENUM_BATCHES))]
    for b, nch in sel:
        for ch in range(nch):
            plans.append({"property": "C10", "kind": "enumerate", "rows": ENUM_BATCHES[b], "chunk": [ch, nch], "tap": True,
                          "config": {"n_jobs": 1 if ch % 2 == 0 else 4, "batch_size": None, "threshold": 0},
                          "sim": {"sched_seed": H(base_seed, "c10enum", b) % (1 << 40)}})
    return plans


def _natoms(smarts):
    from rdkit import Chem

    if not smarts:
        return 0
    m = Chem.MolFromSmarts(smarts)
    return m.GetNumAtoms() if m is not None else 0


def judge(rows_in, res, where=""):
    from rdkit import Chem
    from simworld import oracles

    vs = []
    rows, tap_rows, records = res["rows"], res.get("tap_rows"), res.get("taps") or []
    if rows is None or tap_rows is None or len(rows) != len(rows_in):
        return vs, 0
    # tables keyed per batch call: each record is one get_largest_condition call (one per batch)
    n_with = 0
    rec_i = 0
    # map rows to records: records appear in batch order; a batch without MCS rows has no record.
    # Rows carry batch-local ids; we walk the rows and start a new batch when the id restarts at "0".
    batches = []
    cur = []
    for k, t in enumerate(tap_rows):
        if t is not None and str(t.get("id")) == "0" and cur:
            batches.append(cur)
            cur = []
        cur.append(k)
    if cur:
        batches.append(cur)
    for b in batches:
        has = [k for k in b if isinstance(tap_rows[k].get("mcs"), dict)]
        sent = [k for k in b if rows[k]["solved_by"] not in ("input-balanced", "rule-based")]
        rec = None
        if sent:
            if rec_i < len(records):
                rec = records[rec_i]
            rec_i += 1
        for k in has:
            n_with += 1
            inp, row, t = rows_in[k], rows[k], tap_rows[k]
            mcs = t["mcs"]
            rid = str(t.get("id"))
            if str(mcs.get("id")) != rid:
                vs.append(oracles.V("C10", "result_of_other_reaction", "id", "%srow %d (id %s, %s) carries the search result of id %r" % (where, k, rid, inp, mcs.get("id"))))
                continue
            sr = mcs.get("sorted_reactants") or []
            mr = mcs.get("mcs_results") or []
            if not sr and not any(mr) and rec is not None:
                # entries without any match are skipped by the selection: none may be retained for a reaction
                # whose conditions all came back without a match
                entries = [e for cond in rec["conditions"] for e in cond if str(e.get("id")) == rid]
                if entries and not any(sum(_natoms(x) for x in (e.get("mcs_results") or [])) > 0 for e in entries):
                    vs.append(oracles.V("C10", "entry_without_match_retained", "empty", "%s%s: no condition matched any atom, yet the row carries a search result (issue %r) instead of none" % (where, inp, mcs.get("issue"))))
            if (mcs.get("issue") or "") != "" and not sr:
                continue  # failed entry: nothing reported
            cc = oracles.carbon_counts(row["input_reaction"] or inp)
            side = (row["input_reaction"] or inp).split(">>")[0 if cc[0] >= cc[1] else 1]
            want = oracles.mol_multiset(side)
            got = oracles.mol_multiset(".".join(sr)) if sr else None
            if sr and got != want:
                vs.append(oracles.V("C10", "molecule_list_wrong", "multiset", "%s%s: search result lists %r, carbon-richer side is %r" % (where, inp, sr, side)))
            if len(mr) > len(sr):
                vs.append(oracles.V("C10", "more_patterns_than_molecules", "len", "%s%s: %d patterns for %d molecules" % (where, inp, len(mr), len(sr))))
            for smarts, smi in zip(mr, sr):
                if not smarts:
                    continue
                patt = Chem.MolFromSmarts(smarts)
                mol = Chem.MolFromSmiles(smi)
                if patt is None or mol is None or not mol.HasSubstructMatch(patt):
                    vs.append(oracles.V("C10", "pattern_not_in_attributed_molecule", "substruct", "%s%s: pattern %s is not contained in the molecule it is attributed to (%s)" % (where, inp, smarts, smi)))
                    break
            if rec is not None:
                entries = [e for cond in rec["conditions"] for e in cond if str(e.get("id")) == rid]
                totals = [sum(_natoms(x) for x in (e.get("mcs_results") or [])) for e in entries]
                best = max([t_ for t_ in totals if t_ > 0], default=0)
                mine = sum(_natoms(x) for x in mr)
                if best and mine != best:
                    vs.append(oracles.V("C10", "not_largest_condition", "largest", "%s%s: retained entry matches %d atoms, the conditions tried reach %s" % (where, inp, mine, totals)))
                if entries and not any((e.get("mcs_results") or []) == mr and (e.get("sorted_reactants") or []) == sr for e in entries):
                    vs.append(oracles.V("C10", "retained_entry_not_from_own_table", "table", "%s%s: retained entry is none of the %d entries recorded for id %s" % (where, inp, len(entries), rid)))
        # a reaction sent to the MCS stage whose tables hold a usable entry must not end up without one
        if rec is not None:
            for k in sent:
                rid = str(tap_rows[k].get("id"))
                entries = [e for cond in rec["conditions"] for e in cond if str(e.get("id")) == rid]
                usable = [e for e in entries if sum(_natoms(x) for x in (e.get("mcs_results") or [])) > 0]
                if usable and not isinstance(tap_rows[k].get("mcs"), dict):
                    vs.append(oracles.V("C10", "usable_entry_dropped", "dropped", "%s%s: %d condition entries matched atoms but the row carries no search result" % (where, rows_in[k], len(usable))))
    return vs, n_with


_solo_memo = {}
SOLO_KEYS = ("sorted_reactants", "mcs_results", "issue", "smiles", "boundary_atoms_products", "nearest_neighbor_products")


def solo_search(rsmi):
    """Search result (sorted_reactants, mcs_results, issue) of the reaction processed alone, fault-free."""
    from simworld import runner

    if rsmi not in _solo_memo:
        r = runner.run_once({"rows": [rsmi], "config": {"n_jobs": 1, "threshold": 0}, "sim": {"sched_seed": 0}, "tap": True})
        t = (r.get("tap_rows") or [None])[0]
        m = t.get("mcs") if isinstance(t, dict) else None
        _solo_memo[rsmi] = {k: m.get(k) for k in SOLO_KEYS} if isinstance(m, dict) else None
    return _solo_memo[rsmi]


def execute(plan):
    from simworld import runner

    rows_in = plan["rows"]
    out = {"violations": [], "nontrivial": None, "summary": [], "runs": 0}
    if plan["kind"] == "run":
        res = runner.run_once(plan)
        out["runs"] = 1
        out["summary"].append(common.run_summary(res))
        vs, n_with = judge(rows_in, res)
        if not res["fired"] and res.get("tap_rows") and res["rows"] is not None and len(res["rows"]) == len(rows_in):
            # fault-free: the search result attached to a row is the one the reaction gets when searched alone
            from simworld import oracles

            for inp, t in zip(rows_in, res["tap_rows"]):
                if not isinstance(t, dict) or not isinstance(t.get("mcs"), dict):
                    continue
                solo = solo_search(inp)
                if solo is None:
                    continue
                got = {k: t["mcs"].get(k) for k in SOLO_KEYS}
                if got != solo:
                    diff = [k for k in got if got[k] != solo[k]]
                    vs.append(oracles.V("C10", "search_result_differs_from_solo", ",".join(diff), "%s: in this batch the search result has %r, searched alone %r" % (
                        inp, {k: got[k] for k in diff}, {k: solo[k] for k in diff})))
        out["violations"] = vs
        out["fired_list"] = res["fired_list"]
        if n_with and len(rows_in) >= 2:
            out["nontrivial"] = "%016x" % H(rows_in, plan["config"], sorted(str(f["key"]) for f in res["fired_list"]))
        out["sample"] = {"rows": rows_in, "config": plan["config"], "faults_fired": res["fired"], "rows_with_search_result": n_with,
                         "tables": [[[(e.get("id"), len(e.get("mcs_results") or [])) for e in cond] for cond in rec["conditions"]] for rec in (res.get("taps") or [])][:2]}
        return out
    twin = runner.run_once({"rows": rows_in, "config": plan["config"], "sim": plan["sim"], "tap": True})
    out["runs"] += 1
    jobs = []
    for j in twin.get("jobs", []):
        if j[0] == "mcs_job" and j[1] not in jobs:
            jobs.append(j[1])
    jobs = jobs[:6]
    ch, nch = plan["chunk"]
    nontriv, vs = [], []
    for mask in range(0, 1 << len(jobs)):
        if mask % nch != ch:
            continue
        explicit = [{"site": "mcs_job", "key": jobs[b], "kind": "timeout", "lines": 0, "q": 0.0} for b in range(len(jobs)) if mask >> b & 1]
        sim = common.clone(plan["sim"])
        sim["faults"] = {"explicit": explicit, "zombie_q": 0.0}
        sub = {"property": "C10", "kind": "run", "rows": rows_in, "config": plan["config"], "sim": sim, "tap": True}
        res = runner.run_once(sub)
        out["runs"] += 1
        out["summary"].append(common.run_summary(res))
        v, n_with = judge(rows_in, res, where="[failed-job pattern %d/%d] " % (mask, 1 << len(jobs)))
        for x in v:
            x["subplan"] = sub
        vs += v
        nontriv.append("%016x" % H(rows_in, mask))
        if len(vs) > 4:
            break
    out["violations"] = vs
    out["nontrivial_many"] = nontriv
    out["sample"] = {"rows": rows_in, "enumerated_jobs": jobs, "chunk": plan["chunk"], "patterns_in_chunk": len(nontriv)}
    return out


def explicit_faults(plan, result):
    if plan["kind"] != "run":
        return None
    f = plan["sim"].get("faults")
    if not f or not f.get("rates"):
        return None
    p = common.clone(plan)
    p["sim"]["faults"] = {"explicit": result.get("fired_list") or [], "zombie_q": 0.0}
    return p


def shrink(plan):
    if plan["kind"] != "run":
        return
    rows = plan["rows"]
    if len(rows) > 1:
        for j in range(len(rows)):
            p = common.clone(plan)
            del p["rows"][j]
            yield p
    f = plan["sim"].get("faults") or {}
    ex = f.get("explicit") or []
    for j in range(len(ex)):
        p = common.clone(plan)
        del p["sim"]["faults"]["explicit"][j]
        yield p
    if plan["sim"].get("clock"):
        p = common.clone(plan)
        p["sim"].pop("clock")
        yield p
    for k, v in (("batch_size", None), ("n_jobs", 1)):
        if plan["config"].get(k) != v:
            p = common.clone(plan)
            p["config"][k] = v
            yield p
