"""C01, C02, C03, C04, C18: run invariants checked on every row of every simulated run.

One plan = one simulated `Balancer.rebalance` over a swarm-drawn workload, batching, worker
semantics, task schedule, clock behaviour and (for C01/C03/C18) MCS-stage faults.
"""

import csv
import os

from simworld.core import H
from . import common

WEIGHTS = {
    "C01": {"redox": 3, "hand": 2, "ionic": 1, "mcs-based": 2, "rule-based": 1, "charge-trap": 1, "isotope": 0.5, "dummy-atom": 0.5, "double-redox": 1},
    "C02": {"hand": 3, "redox": 1, "mapped": 2, "mcs-based": 1, "stereo": 1, "marker-prefix": 2, "tautomer-form": 2, "isotope": 1, "dummy-atom": 1},
    "C03": {"declined": 3, "carbon-surplus": 1, "aromatic-surplus": 1, "mcs-based": 2, "hand": 1, "redox": 1},
    "C04": {"input-balanced": 4, "hand": 2, "ionic": 1, "mcs-based": 1, "rule-based": 1, "charge-trap": 1, "redox": 2, "isotope": 1, "dummy-atom": 1, "stereo": 1, "mapped": 1},
    "C18": {"mcs-based": 2, "rule-based": 1, "input-balanced": 1, "declined": 1, "hand": 1, "both-carbon": 1, "no-mcs": 0.5, "carbon-surplus": 0.5},
}
FAULTY = {"C01": 0.5, "C02": 0.3, "C03": 0.5, "C04": 0.2, "C18": 0.4}
NPLANS = {
    "C01": {"quick": 450, "thorough": 5000},
    "C02": {"quick": 200, "thorough": 5000},
    "C03": {"quick": 200, "thorough": 5000},
    "C04": {"quick": 600, "thorough": 3000},
    "C18": {"quick": 260, "thorough": 5000},
}
RULES = {
    "C01": "plan i = H(seed,'C01',i): 1-8 corpus reactions (biased to redox/ionic/MCS rows), swarm batch size, n_jobs (inline vs pickled-process semantics), threshold, task schedule, clock jumps, half of the runs with MCS-stage faults; thorough adds the shipped validation set streamed in batches. Non-trivial: the run returned >=1 solved row whose reaction differs from its input; distinct by (row multiset, config, fault set fired).",
    "C02": "as C01 with workloads biased to explicit-H / marker-substring / atom-mapped / stereo inputs. Non-trivial: >=1 row whose output contains added molecules or whose input carried atom maps; distinct by (rows, config, faults fired).",
    "C03": "threshold fixed to the default 0; workloads biased to reactions that end declined (carbon surplus, failed imputation, both-sided) mixed with solved ones; half of the runs with MCS-stage faults (which create extra declined rows after in-place edits). Non-trivial: >=1 declined row in the run; distinct by (rows, config, faults fired).",
    "C04": "balanced corpus reactions and generated ones (reversals, 2x multiples, unions of balanced reactions) placed between rows that every stage edits; thorough sweeps the shipped curated balanced reactions and their reversals. Non-trivial: run mixes >=1 balanced and >=1 unbalanced input; distinct by (rows, config).",
    "C18": "as C01 (all thresholds, faults) plus CLI runs whose <output>.stats file is parsed back. Non-trivial: run has rows of >=2 different outcomes; distinct by (rows, config, faults fired).",
}

_balanced_pool = None


def balanced_pool():
    """Shipped curated balanced reactions (expected_reaction column), valid closed-shell only."""
    global _balanced_pool
    if _balanced_pool is None:
        out = []
        p = os.path.join(os.environ.get("SYNRBL_REPO", "/repo"), "Data", "Validation_set", "validation_set.csv")
        try:
            with open(p) as f:
                for row in csv.DictReader(f):
                    s = row.get("expected_reaction")
                    if s and len(s) < 500:
                        out.append(s)
        except OSError:
            pass
        _balanced_pool = out
    return _balanced_pool


def _reverse(r):
    a, b = r.split(">>")
    return b + ">>" + a


def _double(r):
    a, b = r.split(">>")
    return a + "." + a + ">>" + b + "." + b


def _union(r1, r2):
    a1, b1 = r1.split(">>")
    a2, b2 = r2.split(">>")
    return a1 + "." + a2 + ">>" + b1 + "." + b2


def gen_plan(prop, base_seed, i, tier):
    rng = common.rng_for(base_seed, prop, i)
    n = rng.randint(1, 8) if rng.random() < 0.8 else rng.randint(1, 3)
    rows = common.pick_rows(rng, n, WEIGHTS[prop])
    if prop == "C04":
        bal = common.corpus()["by_tag"].get("input-balanced", [])
        extra = []
        for _ in range(rng.randint(1, 3)):
            r = rng.choice(bal)
            k = rng.random()
            if k < 0.25:
                r = _reverse(r)
            elif k < 0.4:
                r = _double(r)
            elif k < 0.6:
                r = _union(r, rng.choice(bal))
            extra.append(r)
        if tier == "thorough" and rng.random() < 0.7 and balanced_pool():
            pool = balanced_pool()
            for _ in range(rng.randint(2, 10)):
                r = pool[rng.randrange(len(pool))]
                extra.append(_reverse(r) if rng.random() < 0.4 else r)
        for r in extra:
            rows.insert(rng.randint(0, len(rows)), r)
    if prop == "C02":
        common.maybe_pair(rng, rows, 0.2)
    thresholds = (0,) if prop == "C03" else (0, 0, 0, 0.5, 0.9, 1.0, round(rng.random(), 3))
    cfg = common.gen_config(rng, len(rows), thresholds)
    faulty = rng.random() < FAULTY[prop]
    plan = {
        "property": prop,
        "kind": "run",
        "rows": rows,
        "source": "list",
        "config": cfg,
        "sim": common.gen_sim(rng, faults=faulty),
    }
    if prop in ("C01", "C02", "C04") and rng.random() < 0.3 and plan["source"] == "list":
        # equivalent spellings of some rows (applied in the worker, where RDKit is loaded)
        plan["respell"] = [[rng.randrange(len(plan["rows"])), rng.choice(["random", "kekule", "maps", "explicit_h", "triple", "random"]), rng.getrandbits(24)]
                           for _ in range(rng.randint(1, 3))]
    if prop == "C03" and faulty and rng.random() < 0.5:
        # the late-writing worker thread only matters when the search runs in the caller's process
        plan["config"]["n_jobs"] = 1
        plan["sim"]["faults"]["zombie_q"] = rng.choice([0.5, 1.0, 1.0])
        plan["sim"]["faults"].setdefault("rates", {}).setdefault("mcs_job", {})["timeout"] = rng.choice([0.3, 0.6])
    if prop == "C18" and rng.random() < 0.15:
        # a batch that fails (worker failure at a drawn Parallel call): whatever is returned, rows and counts must agree
        plan["kind"] = "par_fault"
        plan["points"] = [rng.getrandbits(32) for _ in range(3)]
        plan["sim"].pop("faults", None)
        if plan["config"].get("batch_size") is None:
            plan["config"]["batch_size"] = rng.choice([1, 2, 3])
        return plan
    if prop == "C01" and rng.random() < 0.25:
        # a worker task of some Parallel call fails (crash point drawn over the calls the run really makes):
        # the batch may be lost, but whatever is returned as solved must still be balanced
        plan["kind"] = "par_fault"
        plan["points"] = [rng.getrandbits(32) for _ in range(4)]
        plan["sim"].pop("faults", None)
    if prop == "C02" and rng.random() < 0.3:
        # dict rows whose pass-through columns collide with the tool's own column names
        others = common.pick_rows(rng, len(rows), {})
        plan["source"] = "dict"
        plan["rows"] = [{"reaction": r, "input_reaction": o, "note": "n%d" % k} for k, (r, o) in enumerate(zip(rows, others))]
    if prop == "C18" and rng.random() < 0.2:
        # statistics at thresholds equal to (and next to) the confidences the run itself reports
        plan["kind"] = "thr_sweep"
        plan["sim"].pop("faults", None)
        plan["config"]["threshold"] = 0
        return plan
    if prop == "C18" and rng.random() < 0.2:
        # the command-line run: counts are read back from <output>.stats, rows from the output CSV
        plan["source"] = "cli"
        plan["sim"].pop("faults", None)
        if rng.random() < 0.6:
            plan["rows"] = [{"reaction": r, "tag": "t%d" % k, "grp": k % 3} for k, r in enumerate(plan["rows"])]
            plan["passthrough"] = ["tag", "grp"]
        if rng.random() < 0.5:
            plan["config"]["batch_size"] = rng.choice([1, 2, 3, len(plan["rows"])])
    if prop == "C18" and rng.random() < 0.3:
        # malformed rows are passed through unsolved; the counts must still describe the run
        from .c05 import POISON

        for _ in range(rng.randint(1, 2)):
            kind = rng.choice(["unparsable", "no_sep", "reagent_style", "two_sep", "empty_string"])
            pos = rng.randint(1 if plan["source"] == "cli" else 0, len(plan["rows"]))
            plan["rows"].insert(pos, rng.choice(POISON[kind]))
    return plan


def extra_plans(prop, tier, base_seed):
    """C04 thorough: deterministic sweep of every shipped curated balanced reaction and its reversal,
    25 per run, interleaved 1:1 with unbalanced corpus rows that every stage edits."""
    if prop != "C04" or tier != "thorough":
        return []
    pool = balanced_pool()
    plans = []
    for rev in (False, True):
        for k in range(0, len(pool), 25):
            rng = common.rng_for(base_seed, "C04sweep", (k, rev))
            chunk = [(_reverse(r) if rev else r) for r in pool[k:k + 25]]
            others = common.pick_rows(rng, len(chunk), {"mcs-based": 2, "rule-based": 2, "redox": 1})
            rows = [x for pair in zip(chunk, others) for x in pair]
            plans.append({"property": "C04", "kind": "run", "rows": rows, "source": "list",
                          "config": {"n_jobs": rng.choice([1, 4]), "batch_size": rng.choice([None, 7, 50]), "threshold": 0},
                          "sim": {"sched_seed": rng.getrandbits(40)}})
    return plans


def execute(plan):
    from simworld import runner, oracles

    prop = plan["property"]
    if plan.get("respell") and not plan.get("_respelled"):
        plan = dict(plan, rows=list(plan["rows"]), _respelled=True)
        for j, kind, sd in plan["respell"]:
            if j < len(plan["rows"]) and isinstance(plan["rows"][j], str):
                plan["rows"][j] = respell(plan["rows"][j], kind, sd)
    rows_in = [r["reaction"] if isinstance(r, dict) else r for r in plan["rows"]]
    valid = [oracles.is_valid_row(r) for r in rows_in]
    if plan.get("kind") == "par_fault":
        return execute_par_fault(plan, rows_in)
    if plan.get("kind") == "thr_sweep":
        return execute_thr_sweep(plan, rows_in)
    res = runner.run_once(plan)
    out = {"violations": [], "nontrivial": None, "summary": common.run_summary(res), "runs": 1}
    rows = res["rows"]
    cfg = plan["config"]
    if rows is None:
        out["note"] = "run raised %s" % res["exc"]
        out["violations"].append(
            oracles.V(prop, "run_raised", str(res["exc"]), "rebalance raised %s: %s" % (res["exc"], res.get("exc_msg")))
        )
        return out
    aligned = len(rows) == len(rows_in)
    vs = []
    interesting = False
    if prop == "C01":
        for j, row in enumerate(rows):
            inp = rows_in[j] if aligned else (row["input_reaction"] or "")
            if aligned and not valid[j]:
                continue
            vs += oracles.check_c01(inp, row)
            interesting |= bool(row["solved"] and row["reaction"] != row["input_reaction"])
    elif not aligned:
        out["note"] = "row count differs (%d != %d): C05's business" % (len(rows), len(rows_in))
        if prop == "C18" and all(valid):
            vs += oracles.check_c18(rows, res["stats"], len(rows_in))
    elif prop == "C02":
        for inp, ok, row in zip(rows_in, valid, rows):
            if not ok:
                continue
            vs += oracles.check_c02(inp, row)
            interesting |= row["reaction"] != row["input_reaction"] or oracles.has_atom_map(inp)
    elif prop == "C03":
        for inp, ok, row in zip(rows_in, valid, rows):
            if not ok:
                continue
            vs += oracles.check_c03(inp, row, cfg.get("threshold", 0))
            interesting |= not row["solved"]
    elif prop == "C04":
        nb = 0
        for inp, ok, row in zip(rows_in, valid, rows):
            if not ok:
                continue
            vs += oracles.check_c04(inp, row)
            nb += 1 if oracles.balanced(inp) else 0
        interesting = 0 < nb < len(rows_in)
    elif prop == "C18":
        processed = [oracles.pipeline_accepts(r) for r in rows_in]
        if all(v or not p for v, p in zip(valid, processed)):  # no radical-placeholder inputs
            vs += oracles.check_c18(rows, res["stats"], len(rows_in), processed)
            interesting = len({(r["solved"], r["solved_by"]) for r in rows}) >= 2
    out["violations"] = vs
    if interesting:
        out["nontrivial"] = "%016x" % H(sorted(rows_in), cfg, sorted(res["fired"].items()), plan.get("source"))
    out["sample"] = {
        "rows": rows_in,
        "config": cfg,
        "faults_fired": res["fired"],
        "outcomes": [[r["solved"], r["solved_by"]] for r in rows],
    }
    out["fired_list"] = res["fired_list"]
    return out


def respell(rsmi, kind, seed):
    """An equivalent spelling of the same reaction (same molecules on each side)."""
    import random
    from rdkit import Chem
    from simworld import oracles

    if not oracles.is_valid_row(rsmi):
        return rsmi
    rnd = random.Random(seed)
    sides = []
    n_map = [0]
    for side in rsmi.split(">>"):
        comps = []
        for c in side.split("."):
            m = Chem.MolFromSmiles(c)
            if m is None:
                return rsmi
            if kind == "random":
                out = Chem.MolToSmiles(m, doRandom=True, canonical=False)
            elif kind == "kekule":
                mk = Chem.Mol(m)
                try:
                    Chem.Kekulize(mk, clearAromaticFlags=True)
                    out = Chem.MolToSmiles(mk, kekuleSmiles=True)
                except Exception:
                    out = c
            elif kind == "maps":
                mm = Chem.Mol(m)
                for a in mm.GetAtoms():
                    n_map[0] += 1
                    a.SetAtomMapNum(n_map[0])
                out = Chem.MolToSmiles(mm)
            elif kind == "explicit_h":
                out = Chem.MolToSmiles(m, allHsExplicit=True)
            else:
                out = c
            if Chem.MolFromSmiles(out) is None:
                out = c
            comps.append(out)
        if kind == "random":
            rnd.shuffle(comps)
        sides.append(comps)
    if kind == "triple":
        sides = [s * 3 for s in sides]
    return ".".join(sides[0]) + ">>" + ".".join(sides[1])


def execute_par_fault(plan, rows_in):
    """C01 under worker failures: fault-free run to count the Parallel calls, then one run per drawn
    crash point with the first task of that call failing."""
    from simworld import runner, oracles

    out = {"violations": [], "nontrivial": None, "summary": [], "runs": 0, "nontrivial_many": []}
    base = runner.run_once({"rows": plan["rows"], "source": plan.get("source", "list"), "config": plan["config"], "sim": plan["sim"]})
    out["runs"] += 1
    out["summary"].append(common.run_summary(base))
    n = base.get("par_calls", 0)
    if not n:
        return out
    pts = plan.get("calls")
    if pts is None:
        pts = sorted({p % n for p in plan["points"]})
    # the same crash points as failures INSIDE a task: the k-th composition count (RSMIDecomposer.decompose) of the run raises,
    # which code between the task and the Parallel call may catch, retry or paper over
    n2 = base.get("decompose_calls", 0)
    dpts = plan.get("decompose_calls")
    if dpts is None:
        dpts = sorted({(p >> 7) % n2 for p in plan["points"][:2]}) if n2 else []  # two points per plan keep the plan inside its time budget
    for site, k in [("par_task", k) for k in pts] + [("decompose", k) for k in dpts]:
        sim = common.clone(plan["sim"])
        sim["faults"] = {"explicit": [{"site": site, "key": [k, 0] if site == "par_task" else [k], "kind": "raise"}], "zombie_q": 0.0}
        sub = {"property": plan["property"], "kind": "run", "rows": plan["rows"], "source": plan.get("source", "list"), "config": plan["config"], "sim": sim}
        res = runner.run_once(sub)
        out["runs"] += 1
        out["summary"].append(common.run_summary(res))
        if plan["property"] == "C18":
            rows = res["rows"] or []
            if rows and all(oracles.pipeline_accepts(r["input_reaction"] or "") for r in rows):
                # rows lost with the failed batch are C05's business; the counts must describe the rows that came back
                for v in oracles.check_c18(rows, res["stats"], len(rows)):
                    v["detail"] = "[worker failure in Parallel call %d of %d, %d of %d rows returned] " % (k, n, len(rows), len(rows_in)) + v["detail"]
                    v["subplan"] = dict(sub, property="C18")
                    out["violations"].append(v)
        else:
            for row in res["rows"] or []:
                for v in oracles.check_c01(row["input_reaction"] or "", row):
                    v["detail"] = ("[worker failure in Parallel call %d of %d] " % (k, n) if site == "par_task" else "[failure inside decompose call %d of %d] " % (k, n2)) + v["detail"]
                    v["subplan"] = sub
                    out["violations"].append(v)
        if res["fired"].get("par_task.raise") or res["fired"].get("decompose.raise"):
            out["nontrivial_many"].append("%016x" % H(sorted(rows_in), plan["config"], site, k))
    out["sample"] = {"rows": rows_in, "config": plan["config"], "parallel_calls_in_run": n, "worker_failure_at_calls": pts, "decompose_calls_in_run": n2, "decompose_failure_at_calls": dpts}
    return out


def execute_thr_sweep(plan, rows_in):
    """C18 at thresholds equal to / next to observed confidences (where counting and deciding can disagree)."""
    import math
    from simworld import runner, oracles

    out = {"violations": [], "nontrivial": None, "summary": [], "runs": 0, "nontrivial_many": []}
    base = runner.run_once(plan)
    out["runs"] += 1
    out["summary"].append(common.run_summary(base))
    if base["rows"] is None or len(base["rows"]) != len(rows_in):
        return out
    processed = [oracles.pipeline_accepts(r) for r in rows_in]
    out["violations"] += oracles.check_c18(base["rows"], base["stats"], len(rows_in), processed)
    confs = sorted({r["confidence"] for r in base["rows"] if r["solved_by"] == "mcs-based" and r["confidence"] is not None})
    ts = plan.get("thresholds")
    if ts is None:
        ts = []
        for c in confs[:3]:
            ts += [c, round(c, 3), math.nextafter(c, 1.0), round(c + 0.001, 3)]
        ts = [t for t in dict.fromkeys(ts) if 0 < t <= 1][:8]
    for t in ts:
        sub = common.clone(plan)
        sub["kind"] = "run"
        sub["config"]["threshold"] = t
        res = runner.run_once(sub)
        out["runs"] += 1
        out["summary"].append(common.run_summary(res))
        if res["rows"] is None or len(res["rows"]) != len(rows_in):
            continue
        for v in oracles.check_c18(res["rows"], res["stats"], len(rows_in), processed):
            v["detail"] = "[threshold %r] " % t + v["detail"]
            v["subplan"] = sub
            out["violations"].append(v)
        out["nontrivial_many"].append("%016x" % H(sorted(rows_in), plan["config"], t))
    out["sample"] = {"rows": rows_in, "config": plan["config"], "thresholds": ts, "confidences": confs}
    return out


def shrink(plan):
    """Simpler plans, most aggressive first."""
    rows = plan["rows"]
    n = len(rows)
    if n > 1:
        for j in range(n):
            p = common.clone(plan)
            p["rows"] = [rows[j]]
            yield p
        half = n // 2
        for part in (rows[:half], rows[half:]):
            p = common.clone(plan)
            p["rows"] = part
            yield p
        for j in range(n):
            p = common.clone(plan)
            del p["rows"][j]
            yield p
    f = (plan["sim"].get("faults") or {})
    if f.get("rates") or f.get("explicit"):
        p = common.clone(plan)
        p["sim"].pop("faults")
        yield p
        ex = f.get("explicit") or []
        for j in range(len(ex)):
            p = common.clone(plan)
            del p["sim"]["faults"]["explicit"][j]
            yield p
        if f.get("zombie_q"):
            p = common.clone(plan)
            p["sim"]["faults"]["zombie_q"] = 0.0
            yield p
    if plan["sim"].get("clock"):
        p = common.clone(plan)
        p["sim"].pop("clock")
        yield p
    cfg = plan["config"]
    for k, v in (("batch_size", None), ("n_jobs", 1), ("threshold", 0)):
        if cfg.get(k) != v:
            p = common.clone(plan)
            p["config"][k] = v
            yield p
    if plan.get("source") != "list":
        p = common.clone(plan)
        p["source"] = "list"
        yield p


def explicit_faults(plan, result):
    """Rewrite rate-based faults as the explicit list that actually fired (for minimisation)."""
    f = plan["sim"].get("faults")
    if not f or not f.get("rates"):
        return None
    p = common.clone(plan)
    p["sim"]["faults"] = {"explicit": result.get("fired_list") or [], "zombie_q": f.get("zombie_q", 0.0)}
    return p
