"""C11: MCS-stage timeouts and failures are contained to the affected reaction.

One plan = a batch of mixed reactions run twice on the same schedule: once with faults injected
into the MCS stage and once fault-free (the twin). Faults are addressed by label (site, reaction,
search condition[, call ordinal]) so a plan means the same thing under every batch order.

  mcs_job  : timeout (the job becomes a zombie thread that keeps writing into the record the caller
             already returned; `lines` executed before the caller gave up, later steps with rate q)
             or hang (never runs again)
  frag_job : timeout or internal exception of the missing-fragment analysis
  fmcs     : RDKit FindMCS budget exhausted (canceled=True with a degraded but genuine pattern) or raise
  fmces    : RascalMCES returns nothing / raises

`enumerate` plans take a small batch, discover its job labels from the fault-free run and go through
ALL subsets of those jobs (chunked across plans) with one fault kind.
"""

from simworld.core import H
from . import common

NPLANS = {"quick": 60, "thorough": 4000}
RULE = (
    "plan i = H(seed,'C11',i): 2-6 corpus reactions (<=4 reaching the MCS stage), swarm batching/workers/schedule, "
    "fault rates per site from {2%,10%,30%,60%} over a random subset of {mcs_job timeout/hang, frag_job timeout/exception, "
    "FindMCS cancel/raise, FindMCES empty/raise}, zombie step rate q in {0,0.05,0.5,1}; each faulty run has a fault-free "
    "twin on the same schedule. Plus enumeration plans: every subset of the (reaction, condition) search jobs and fragment "
    "jobs of a fixed small batch with one fault kind per plan. Non-trivial: >=1 fault fired inside an MCS-stage job; "
    "distinct by (rows, config, set of fired fault labels, zombie rate)."
)

ENUM_BATCHES = [
    ["COC(C)=O>>OC(C)=O", "CCO>>CCO", "CC(=O)OC(C)=O.Nc1ccccc1>>CC(=O)Nc1ccccc1"],
    ["CCOC(=O)c1ccccc1>>OC(=O)c1ccccc1", "CC(=O)Nc1ccccc1>>Nc1ccccc1", "CC(=O)O.CCO>>CC(=O)OCC"],
    ["COc1ccccc1>>Oc1ccccc1", "CC(C)(C)OC(=O)NCc1ccccc1>>NCc1ccccc1"],
    # rows solved before the MCS stage in FRONT of the MCS rows: positions in the MCS lists and row indices overlap
    ["CCO>>CCO", "COC(C)=O>>OC(C)=O", "CC(=O)Nc1ccccc1>>Nc1ccccc1", "CCOC(=O)c1ccccc1>>OC(=O)c1ccccc1"],
]
ENUM_KINDS = [
    ("mcs_job", {"kind": "timeout", "lines": 0, "q": 1.0}),
    ("mcs_job", {"kind": "timeout", "lines": 9, "q": 0.5}),
    ("mcs_job", {"kind": "hang"}),
    ("frag_job", {"kind": "timeout"}),
    ("frag_job", {"kind": "exception"}),
    ("mcs_job", {"kind": "timeout", "lines": 0, "wake_in": "get_largest_condition"}),
    ("mcs_job", {"kind": "timeout", "lines": 4, "wake_in": "find_graph_dict"}),
    ("mcs_job", {"kind": "timeout", "lines": 0, "wake_in": "run"}),
]


def gen_plan(base_seed, i, tier):
    rng = common.rng_for(base_seed, "C11", i)
    n_mcs = rng.randint(1, 4) if rng.random() < 0.85 else rng.randint(5, 8)
    rows = common.pick_rows(rng, n_mcs, {"mcs-based": 10, "no-mcs": 1})
    rows += common.pick_rows(rng, rng.randint(0, 3), {"rule-based": 2, "input-balanced": 1, "declined": 2, "redox": 1})
    if rng.random() < 0.3:  # the same reaction twice: each copy is its own row with its own jobs
        rows.append(rows[0])
    rng.shuffle(rows)
    cfg = common.gen_config(rng, len(rows), thresholds=(0, 0, 0.5))
    sim = common.gen_sim(rng, faults=True)
    return {"property": "C11", "kind": "faulty", "rows": rows, "config": cfg, "sim": sim}


def extra_plans(tier, base_seed):
    plans = []
    if tier == "quick":
        sel = [(0, 0, 8), (0, 4, 4), (1, 5, 8), (3, 3, 2), (3, 4, 2)]
    else:
        sel = [(b, k, 16) for b in range(len(ENUM_BATCHES)) for k in range(len(ENUM_KINDS))]
    # a timed-out job frozen after exactly k traced lines (never scheduled again): every intermediate state of
    # the shared record, including "mcs_results written, sorted_reactants not yet", persists through all reads
    for b in ([3] if tier == "quick" else range(len(ENUM_BATCHES))):
        nch = 4
        for ch in range(nch):
            plans.append({"property": "C11", "kind": "freeze_sweep", "rows": ENUM_BATCHES[b], "chunk": [ch, nch],
                          "config": {"n_jobs": 1, "batch_size": None, "threshold": 0}, "sim": {"sched_seed": H(base_seed, "freeze", b) % (1 << 40)}})
    for b, k, nch in sel:
        for ch in range(nch):
            plans.append({
                "property": "C11", "kind": "enumerate", "rows": ENUM_BATCHES[b], "enum_kind": k, "chunk": [ch, nch],
                "config": {"n_jobs": 1 if (b + k) % 2 == 0 else 4, "batch_size": None, "threshold": 0},
                "sim": {"sched_seed": H(base_seed, "enum", b, k) % (1 << 40)},
            })
    return plans


def row_hits(n, res, bs):
    """Indices of the result rows whose own jobs were faulted. Row-level attribution needs the batch
    counter to agree with the batching we asked for; otherwise fall back to reaction-level attribution."""
    ar = res.get("affected_rows") or []
    if not ar:
        return set()
    size = n if not bs else max(int(bs), 1)
    expected = (n + size - 1) // size
    hits = set()
    if res.get("batches_seen") == expected:
        for b, rid, rxn in ar:
            try:
                i = (int(b) - 1) * size + int(rid)
            except (TypeError, ValueError):
                i = -1
            if 0 <= i < n:
                hits.add(i)
            else:
                res.setdefault("affected", []).append(rxn)
    else:
        res["affected"] = list(res.get("affected") or []) + [x[2] for x in ar]
    return hits


def judge(rows_in, res, twin, threshold, where="", bs=None):
    """Containment oracle for one faulty run against its fault-free twin."""
    from simworld import oracles

    vs = []
    rows, trows = res["rows"], twin["rows"]
    if trows is None or len(trows) != len(rows_in):
        return vs, False  # nothing to compare against (twin itself failed: not this property's business)
    if rows is None:
        vs.append(oracles.V("C11", "run_raised", str(res["exc"]), "%srebalance raised %s under MCS-stage faults %s" % (where, res["exc"], res["fired"])))
        return vs, True
    if len(rows) != len(rows_in):
        vs.append(oracles.V("C11", "rows_lost", "count", "%s%d rows for %d inputs under faults %s (twin returned all)" % (where, len(rows), len(rows_in), res["fired"])))
        return vs, True
    hit_rows = row_hits(len(rows_in), res, bs)
    affected = set(res["affected"])
    for i, (inp, row, trow) in enumerate(zip(rows_in, rows, trows)):
        hit = res["affected_all"] or (row["input_reaction"] in affected) or (trow["input_reaction"] in affected) or i in hit_rows
        if not hit:
            diff = oracles.rows_equal(row, trow)
            if diff:
                vs.append(oracles.V("C11", "unaffected_row_changed", ",".join(diff),
                                    "%sno job of %s was faulted, yet its row differs from the fault-free run in %s: %r vs %r (faults fired: %s)" % (
                                        where, inp, diff, {k: row[k] for k in diff}, {k: trow[k] for k in diff}, [(f["site"], f["kind"], f["key"][:2]) for f in res["fired_list"]][:6])))
        else:
            if row["solved"]:
                if oracles.is_valid_row(inp) and oracles.balanced(row["reaction"]) is not True:
                    vs.append(oracles.V("C11", "affected_solved_unbalanced", str(row["solved_by"]), "%saffected reaction %s reported solved but unbalanced: %s" % (where, inp, row["reaction"])))
            else:
                below = row["solved_by"] == "mcs-based" and row["confidence"] is not None and threshold > 0
                if row["reaction"] != row["input_reaction"] and not below:
                    vs.append(oracles.V("C11", "affected_declined_changed", "revert", "%saffected reaction %s declined but not returned unchanged: %s" % (where, inp, row["reaction"])))
                if row["issue"] == "":
                    vs.append(oracles.V("C11", "affected_declined_no_reason", "issue", "%saffected reaction %s declined without a reason" % (where, inp)))
        if oracles.is_valid_row(inp):
            for v in oracles.check_c01(inp, row):
                if not (v["key"].startswith("oxidation_template")):
                    vs.append(dict(v, property="C11", clause="c01_" + v["clause"]))
            if threshold == 0:
                for v in oracles.check_c03(inp, row, threshold):
                    vs.append(dict(v, property="C11", clause="c03_" + v["clause"]))
    return vs, True


def _reach_probes(res):
    """Rare-state probes computed from the tapped search results (reach measurement, not an oracle)."""
    pr = res.setdefault("probes", {})
    for row, t in zip(res.get("rows") or [], res.get("tap_rows") or []):
        if not isinstance(t, dict) or row["solved_by"] in ("input-balanced", "rule-based"):
            continue
        mcs = t.get("mcs")
        hit = res.get("affected_all") or row["input_reaction"] in set(res.get("affected") or []) or row["input_reaction"] in {x[2] for x in (res.get("affected_rows") or [])}
        if mcs is None and hit:
            pr["all_conditions_failed"] = pr.get("all_conditions_failed", 0) + 1
        if isinstance(mcs, dict):
            issue = mcs.get("issue") or ""
            if "timeout" in issue and (mcs.get("mcs_results") or []):
                pr["timed_out_entry_selected"] = pr.get("timed_out_entry_selected", 0) + 1
            if hit and issue == "" and not (mcs.get("smiles") or []) and (mcs.get("sorted_reactants") or []):
                pr["frag_issue_overwritten"] = pr.get("frag_issue_overwritten", 0) + 1
            if hit and row["solved"]:
                pr["affected_row_still_solved"] = pr.get("affected_row_still_solved", 0) + 1
        if hit and not row["solved"]:
            pr["affected_row_declined"] = pr.get("affected_row_declined", 0) + 1


def _nofault(sim):
    s = common.clone(sim)
    s.pop("faults", None)
    return s


def execute(plan):
    from simworld import runner

    from simworld import oracles

    rows_in = plan["rows"]
    out = {"violations": [], "nontrivial": None, "summary": [], "runs": 0}
    thr = plan["config"].get("threshold", 0)
    clean_spec = {"rows": rows_in, "config": plan["config"], "sim": _nofault(plan["sim"])}
    # Half of the faulty plans run the faults FIRST, on whatever state the process is in (a cold memo or
    # cache in the code under test is then filled under faults); the fault-free run that follows is both
    # the twin and the "faults have stopped" run. The other half runs twin, faulty, twin again.
    faulty_first = plan["kind"] == "faulty" and plan.get("order", "twin_first" if H(rows_in, plan["sim"].get("sched_seed")) % 2 else "faulty_first") == "faulty_first"
    twin = None
    if not faulty_first:
        twin = runner.run_once(clean_spec)
        out["runs"] += 1
        out["summary"].append(common.run_summary(twin))
    if plan["kind"] == "faulty":
        res = runner.run_once({"rows": rows_in, "config": plan["config"], "sim": plan["sim"], "tap": True})
        out["runs"] += 1
        _reach_probes(res)
        out["summary"].append(common.run_summary(res))
        after = None
        if faulty_first or res["fired"]:
            after = runner.run_once(clean_spec)
            out["runs"] += 1
            out["summary"].append(common.run_summary(after))
        pristine = None
        if twin is None:
            twin = after
            if res["fired"]:
                # the same fault-free run once more, after forgetting all module-level state of the code
                # under test: what the faulty run left behind in the process must not matter
                runner.fresh_state()
                pristine = runner.run_once(clean_spec)
                out["runs"] += 1
                out["summary"].append(common.run_summary(pristine))
        vs, _ = judge(rows_in, res, twin, thr, bs=plan["config"].get("batch_size"))
        if after is not None and after is not twin and twin["rows"] is not None:
            # faults have stopped: the same run again, in the same process, must be the fault-free run again
            if after["rows"] != twin["rows"] or after["stats"] != twin["stats"]:
                k = next((i for i, (a, b) in enumerate(zip(after["rows"] or [], twin["rows"])) if a != b), 0)
                vs.append(oracles.V("C11", "fault_outlives_run", "after", "fault-free run after the faulty one differs from the fault-free run before it at row %d (%s): %r vs %r" % (
                    k, rows_in[k] if k < len(rows_in) else None, (after["rows"] or [None] * (k + 1))[k] if after["rows"] is not None and k < len(after["rows"]) else after["exc"], twin["rows"][k] if k < len(twin["rows"]) else None)))
        if pristine is not None and (pristine["rows"] != after["rows"] or pristine["stats"] != after["stats"]):
            k = next((i for i, (a, b) in enumerate(zip(after["rows"] or [], pristine["rows"] or [])) if a != b), 0)
            vs.append(oracles.V("C11", "fault_outlives_run", "pristine", "faults first, then the fault-free run: row %d (%s) is %r, but %r once the process state left behind by the faulty run is discarded" % (
                k, rows_in[k] if k < len(rows_in) else None, (after["rows"] or [None] * (k + 1))[k] if after["rows"] else after["exc"], (pristine["rows"] or [None] * (k + 1))[k] if pristine["rows"] else pristine["exc"])))
        last_clean = after if after is not None else twin
        if thr == 0 and last_clean["rows"] is not None and len(last_clean["rows"]) == len(rows_in):
            # fault-free result per reaction, compared across all plans and worker processes by the driver
            out["clean_rows"] = [[r, row] for r, row in zip(rows_in, last_clean["rows"])]
            exp = plan.get("expect_clean") or {}
            for r, row in out["clean_rows"]:
                if r in exp and exp[r] != row:
                    diff = oracles.rows_equal(row, exp[r])
                    vs.append(oracles.V("C11", "fault_free_result_depends_on_process_history", ",".join(diff),
                                        "after the faults stopped, the fault-free result of %s in this process is %r; other executions of the same fault-free run give %r" % (
                                            r, {k: row[k] for k in diff}, {k: exp[r][k] for k in diff})))
        out["violations"] = vs
        out["fired_list"] = res["fired_list"]
        inside = sum(v for k, v in res["fired"].items() if k.split(".")[0] in ("mcs_job", "frag_job", "fmcs", "fmces"))
        if inside:
            out["nontrivial"] = "%016x" % H(sorted(rows_in), plan["config"], sorted(runner._jsonable(f["site"] + f["kind"] + str(f["key"])) for f in res["fired_list"]), (plan["sim"].get("faults") or {}).get("zombie_q"))
        out["sample"] = {"rows": rows_in, "config": plan["config"], "faults_fired": res["fired"], "probes": res["probes"],
                         "affected": res["affected"], "outcomes": [[r["solved"], r["solved_by"], r["issue"][:40]] for r in (res["rows"] or [])]}
        return out
    if plan["kind"] == "freeze_sweep":
        jobs = []
        for j in twin.get("jobs", []):
            if j[0] == "mcs_job" and j[1] not in jobs:
                jobs.append(j[1])
        ch, nch = plan["chunk"]
        vs, nontriv, n = [], [], 0
        for job in jobs:
            for k in range(4, 22):
                n += 1
                if n % nch != ch:
                    continue
                sim = common.clone(plan["sim"])
                sim["faults"] = {"explicit": [{"site": "mcs_job", "key": job, "kind": "timeout", "lines": k, "q": 0.0}], "zombie_q": 0.0}
                res = runner.run_once({"rows": rows_in, "config": plan["config"], "sim": sim, "tap": True})
                out["runs"] += 1
                _reach_probes(res)
                out["summary"].append(common.run_summary(res))
                v, _ = judge(rows_in, res, twin, thr, where="[job %s frozen after %d lines] " % (job[1], k), bs=plan["config"].get("batch_size"))
                for x in v:
                    x["subplan"] = {"property": "C11", "kind": "faulty", "order": "twin_first", "rows": rows_in, "config": plan["config"], "sim": sim}
                vs += v
                nontriv.append("%016x" % H(rows_in, job, k))
                if len(vs) > 5:
                    break
        out["violations"] = vs
        out["nontrivial_many"] = nontriv
        out["sample"] = {"rows": rows_in, "freeze_sweep_jobs": len(jobs), "lines": [4, 21], "chunk": plan["chunk"]}
        return out
    # enumerate: all subsets of the jobs of this batch, chunked
    site, fault = ENUM_KINDS[plan["enum_kind"]]
    jobs = []
    for j in twin.get("jobs", []):
        if j[0] == site and j[1] not in jobs:
            jobs.append(j[1])
    jobs = jobs[:8]
    ch, nch = plan["chunk"]
    total = 1 << len(jobs)
    nontriv = []
    vs = []
    for mask in range(1, total):
        if mask % nch != ch:
            continue
        explicit = [dict(fault, site=site, key=jobs[b]) for b in range(len(jobs)) if mask >> b & 1]
        sim = common.clone(plan["sim"])
        sim["faults"] = {"explicit": explicit, "zombie_q": fault.get("q", 0.0)}
        res = runner.run_once({"rows": rows_in, "config": plan["config"], "sim": sim})
        out["runs"] += 1
        out["summary"].append(common.run_summary(res))
        v, _ = judge(rows_in, res, twin, thr, where="[subset %d/%d of %s %s] " % (mask, total, site, fault["kind"]), bs=plan["config"].get("batch_size"))
        for x in v:
            x["subplan"] = {"property": "C11", "kind": "faulty", "rows": rows_in, "config": plan["config"], "sim": sim}
        vs += v
        if res["fired"]:
            nontriv.append("%016x" % H(rows_in, site, fault, mask))
        if len(vs) > 5:
            break
    out["violations"] = vs
    out["nontrivial_many"] = nontriv
    out["enumerated"] = {"jobs": len(jobs), "subsets_in_chunk": len(nontriv)}
    out["sample"] = {"rows": rows_in, "enumerated_site": site, "kind": fault, "jobs": jobs, "chunk": plan["chunk"]}
    return out


def explicit_faults(plan, result):
    if plan["kind"] != "faulty":
        return None
    f = plan["sim"].get("faults")
    if not f or not f.get("rates"):
        return None
    p = common.clone(plan)
    p["sim"]["faults"] = {"explicit": result.get("fired_list") or [], "zombie_q": f.get("zombie_q", 0.0)}
    return p


def shrink(plan):
    if plan["kind"] in ("enumerate", "freeze_sweep"):
        return
    rows = plan["rows"]
    n = len(rows)
    if n > 1:
        for j in range(n):
            p = common.clone(plan)
            del p["rows"][j]
            yield p
    f = plan["sim"].get("faults") or {}
    ex = f.get("explicit") or []
    if len(ex) > 1:
        for j in range(len(ex)):
            p = common.clone(plan)
            p["sim"]["faults"]["explicit"] = [ex[j]]
            yield p
        for j in range(len(ex)):
            p = common.clone(plan)
            del p["sim"]["faults"]["explicit"][j]
            yield p
    if f.get("zombie_q") not in (0, 0.0, None):
        for q in (0.0, 1.0):
            if f.get("zombie_q") != q:
                p = common.clone(plan)
                p["sim"]["faults"]["zombie_q"] = q
                yield p
    for j, e in enumerate(ex):
        if e.get("lines"):
            p = common.clone(plan)
            p["sim"]["faults"]["explicit"][j]["lines"] = 0
            yield p
    if plan["sim"].get("clock"):
        p = common.clone(plan)
        p["sim"].pop("clock")
        yield p
    for k, v in (("batch_size", None), ("n_jobs", 1), ("threshold", 0)):
        if plan["config"].get(k) != v:
            p = common.clone(plan)
            p["config"][k] = v
            yield p
