"""C06: a reaction's result does not depend on its batch context.

One plan = a multiset R of corpus reactions and K contexts (permutation, partition into batches,
worker count with inline vs pickled-process semantics, task completion order, clock behaviour,
re-use of one Balancer object for repeated runs). Faults off. Oracle: every output row equals the
row of the same reaction processed alone, and the run statistics equal the key-wise sum of the
solo statistics (hence are additive over batches and independent of the partition).
"""

from simworld.core import H
from . import common

NPLANS = {"quick": 50, "thorough": 3000}
RULE = (
    "plan i = H(seed,'C06',i): 2-8 corpus reactions (duplicates allowed) x K contexts (K=3 quick, 6 thorough); "
    "each context draws a permutation, batch size in {None,1..n+1}, n_jobs in {1,2,4,16,-1}, forced inline/process "
    "semantics in some, a task schedule seed, clock skew/jumps, and optionally a second run on the same Balancer. "
    "Non-trivial: a context whose batch holds >=2 rows with different outcomes; distinct by (rows, permutation, config)."
)
STAT_KEYS = ["reaction_cnt", "balanced_cnt", "rb_applied", "rb_solved", "mcs_applied", "mcs_solved", "confident_cnt"]


def gen_plan(base_seed, i, tier):
    rng = common.rng_for(base_seed, "C06", i)
    n = rng.randint(2, 8) if rng.random() < 0.7 else rng.randint(2, 4)
    w = {"mcs-based": 3, "rule-based": 2, "redox": 1, "input-balanced": 1, "declined": 1, "hand": 1, "no-mcs": 0.5, "reverted-mcs": 1, "single-o": 1}
    if rng.random() < 0.2:
        w = {"mcs-based": 12, "no-mcs": 1}  # many reactions of one batch in the MCS stage
        n = rng.randint(5, 9)
    rows = common.pick_rows(rng, n, w)
    if rng.random() < 0.3:
        rows.append(rng.choice(rows))  # duplicate
    common.maybe_pair(rng, rows)
    K = 3 if tier == "quick" else (6 if len(rows) <= 6 else 4)
    ctxs = []
    for _ in range(K):
        perm = list(range(len(rows)))
        rng.shuffle(perm)
        cfg = common.gen_config(rng, len(rows), thresholds=(0,))
        sim = common.gen_sim(rng)
        u = rng.random()
        if u < 0.15:
            sim["par_mode"] = "process"
        elif u < 0.25:
            sim["par_mode"] = "inline"
        if rng.random() < 0.2:
            cfg["assign"] = {"n_jobs": cfg["n_jobs"]}  # set through the public n_jobs property after construction
            cfg["ctor_n_jobs"] = rng.choice([1, 2])
        reuse = rng.random() < 0.25
        ctx = {"perm": perm, "config": cfg, "sim": sim, "reuse": reuse}
        if reuse:
            # an earlier rebalance() call on the same Balancer object, over other rows / another order
            warm = list(range(len(rows)))
            rng.shuffle(warm)
            ctx["warm"] = warm[: rng.randint(1, len(warm))]
        ctxs.append(ctx)
    plan = {"property": "C06", "kind": "contexts", "rows": rows, "contexts": ctxs}
    if rng.random() < 0.2:
        # the same faults in every context (addressed by reaction and search condition, never written late):
        # with the environment held fixed the rows still must not depend on order, partition or workers
        rows[:] = list(dict.fromkeys(rows))  # no duplicates here: their jobs are told apart by execution order
        rate = rng.choice([0.15, 0.3, 0.5])
        fs = {"rates": {"mcs_job": {"hang": rate}, "frag_job": {"timeout": rate / 2, "exception": rate / 2}}, "zombie_q": 0.0}
        seed = rng.getrandbits(40)
        for c in ctxs:
            c["perm"] = [j for j in c["perm"] if j < len(rows)]
            c["reuse"] = False
            c.pop("warm", None)
            c["sim"]["faults"] = fs
            c["sim"]["fault_seed"] = seed
        plan["fixed_faults"] = True
    return plan


def extra_plans(tier, base_seed):
    """Large MCS batches under epoch-scale clock steps (a machine without RTC syncing from 1970, a clock set
    back by years): the progress/ETA code reads the wall clock, results must not depend on it."""
    import json
    import os

    with open(os.path.join(common.HERE, "corpus", "reactions.json")) as f:
        items = [it for it in json.load(f) if "mcs-based" in it["tags"] and "declined" not in it["tags"]]
    items.sort(key=lambda it: (it["t"], it["rsmi"]))
    rows = [it["rsmi"] for it in items[:56]]
    plans = []
    variants = [[[1, 1.76e9]], [[3, -1.5e9]]] if tier == "quick" else [[[1, 1.76e9]], [[3, -1.5e9]], [[0, 1.76e9], [40, 3.0e9]], [[10, 4.0e10]], [[2, 11.0], [5, -11.0]]]
    for v, steps in enumerate(variants):
        n = len(rows) if v == 0 else 24
        plans.append({"property": "C06", "kind": "contexts", "rows": rows[:n], "contexts": [
            {"perm": list(range(n)), "config": {"n_jobs": 1 if v % 2 == 0 else 4, "batch_size": None, "threshold": 0},
             "sim": {"sched_seed": base_seed + v, "clock": {"skew0": -1.7e9 if steps[0][1] > 0 else 0.0, "steps": steps}}, "reuse": False}]})
    return plans


def _sum_stats(stats_list):
    out = {}
    for s in stats_list:
        for k, v in (s or {}).items():
            out[k] = out.get(k, 0) + v
    return out


def execute(plan):
    from simworld import runner, oracles

    rows_in = plan["rows"]
    out = {"violations": [], "nontrivial": None, "summary": [], "runs": 0}
    refs = [common.reference_row(r) for r in rows_in]
    fixed = bool(plan.get("fixed_faults"))
    base_rows = None  # rows of the first context, by reaction (fixed-fault plans compare contexts with each other)
    vs = []
    nontriv = []
    for ci, ctx in enumerate(plan["contexts"]):
        order = [rows_in[j] for j in ctx["perm"] if j < len(rows_in)]
        order_refs = [refs[j] for j in ctx["perm"] if j < len(rows_in)]
        spec = {"rows": order, "config": ctx["config"], "sim": ctx["sim"]}
        reps = 2 if ctx.get("reuse") else 1
        bal = None
        if reps == 2:
            runner.setup()
            bal = runner.make_balancer(ctx["config"])
        for rep in range(reps):
            if reps == 2 and rep == 0 and ctx.get("warm"):
                order_now = [rows_in[j] for j in ctx["warm"] if j < len(rows_in)]
                refs_now = [refs[j] for j in ctx["warm"] if j < len(rows_in)]
            else:
                order_now, refs_now = order, order_refs
            if not order_now:
                continue
            res = runner.run_once(dict(spec, rows=order_now), balancer=bal)
            out["runs"] += 1
            out["summary"].append(common.run_summary(res))
            rows = res["rows"]
            where = "context %d%s (batch_size=%s n_jobs=%s par_mode=%s)" % (
                ci, (" 2nd call on the same Balancer" if rep else " 1st of two calls on one Balancer") if reps == 2 else "", ctx["config"].get("batch_size"), ctx["config"].get("n_jobs"), ctx["sim"].get("par_mode", "auto"))
            if rows is None:
                vs.append(oracles.V("C06", "run_raised", str(res["exc"]), "%s raised %s: %s" % (where, res["exc"], res.get("exc_msg"))))
                continue
            if len(rows) != len(order_now):
                vs.append(oracles.V("C06", "row_count", "count", "%s returned %d rows for %d inputs: %s" % (where, len(rows), len(order_now), order_now)))
                continue
            if fixed:
                if base_rows is None:
                    base_rows = {inp: row for inp, row in zip(order_now, rows)}
                    base_where = where
                for inp, row in zip(order_now, rows):
                    diff = oracles.rows_equal(row, base_rows.get(inp, row))
                    if diff:
                        vs.append(oracles.V("C06", "row_depends_on_context_under_fixed_faults", ",".join(diff),
                                            "same injected MCS-stage failures in both runs (%s): %s is %r in %s but %r in %s" % (
                                                sorted(res["fired"].items()), inp, {k: row[k] for k in diff}, where, {k: base_rows[inp][k] for k in diff}, base_where)))
                if res["fired"] and len({(r["solved"], r["solved_by"]) for r in rows}) >= 2:
                    nontriv.append("%016x" % H(order_now, ctx["config"], "fixed-faults"))
                continue
            for inp, (ref, _), row in zip(order_now, refs_now, rows):
                if ref is None:
                    continue
                diff = oracles.rows_equal(row, ref)
                if diff:
                    vs.append(
                        oracles.V(
                            "C06", "row_differs_from_solo", ",".join(diff),
                            "%s: %s differs from its solo result in %s: batch=%r solo=%r" % (where, inp, diff, {k: row[k] for k in diff}, {k: ref[k] for k in diff}),
                        )
                    )
            if all(r[0] is not None for r in refs_now):
                want = _sum_stats([r[1] for r in refs_now])
                got = res["stats"] or {}
                bad = [k for k in sorted(set(want) | set(got)) if want.get(k, 0) != got.get(k, 0)]
                if bad:
                    vs.append(
                        oracles.V("C06", "stats_not_additive", ",".join(bad), "%s: stats %r != sum of solo stats %r" % (where, got, want))
                    )
            bs = ctx["config"].get("batch_size")
            group = len(order_now) if bs is None else min(bs, len(order_now))
            if group >= 2 and len({(r["solved"], r["solved_by"]) for r in rows}) >= 2:
                nontriv.append("%016x" % H(order_now, ctx["config"], ctx["sim"].get("par_mode")))
    out["violations"] = vs
    out["nontrivial_many"] = nontriv
    out["nontrivial"] = nontriv[0] if nontriv else None
    out["sample"] = {"rows": rows_in, "contexts": [{"perm": c["perm"], "config": c["config"], "par_mode": c["sim"].get("par_mode", "auto"), "reuse": c.get("reuse")} for c in plan["contexts"]]}
    return out


def shrink(plan):
    ctxs = plan["contexts"]
    if len(ctxs) > 1:
        for j in range(len(ctxs)):
            p = common.clone(plan)
            p["contexts"] = [ctxs[j]]
            yield p
    n = len(plan["rows"])
    if n > 1:
        for j in range(n):
            p = common.clone(plan)
            del p["rows"][j]
            for c in p["contexts"]:
                c["perm"] = [k if k < j else k - 1 for k in c["perm"] if k != j]
                if c.get("warm"):
                    c["warm"] = [k if k < j else k - 1 for k in c["warm"] if k != j]
            yield p
    for ci, c in enumerate(ctxs):
        if c["perm"] != sorted(c["perm"]):
            p = common.clone(plan)
            p["contexts"][ci]["perm"] = sorted(c["perm"])
            yield p
        for k, v in (("batch_size", None), ("n_jobs", 1)):
            if c["config"].get(k) != v:
                p = common.clone(plan)
                p["contexts"][ci]["config"][k] = v
                yield p
        if c["sim"].get("clock"):
            p = common.clone(plan)
            p["contexts"][ci]["sim"].pop("clock")
            yield p
        if c.get("reuse"):
            p = common.clone(plan)
            p["contexts"][ci]["reuse"] = False
            yield p
