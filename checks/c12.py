"""C12: result caching is transparent across runs, configurations and crashes.

One plan = a history of rebalancing runs over one simulated cache directory (SimFS). Each step is a
fresh Balancer (a new process would re-scan the directory). Steps may change batch size, threshold,
reaction column and inputs, may be killed at byte N of the run's cache writes (or just before a cache
file is created), may hit ENOSPC, and cache files may be lost between runs. Every run that completes
is compared with the same run with caching disabled.

`crash_enum` plans enumerate crash points of a fixed run (every byte offset in thorough, a stride in
quick) and follow each with a resuming run.
"""

from simworld.core import H
from . import common

NPLANS = {"quick": 150, "thorough": 3000}
RULE = (
    "plan i = H(seed,'C12',i): history of 2-5 runs over one SimFS cache directory; inputs repeat / overlap / re-batch / "
    "re-order earlier ones; threshold drawn from {0, values just below/equal/above confidences seen earlier, 1}; reaction "
    "column switched between two columns present in the rows; 35% of the runs killed at a byte offset of their cache "
    "writes (fraction drawn with extra mass on 0, 1, W-1, W and 'before open'), some with ENOSPC, EIO (read / replace / open for write) or a lost cache file; 20% of histories end with an unchanged "
    "repeat of an earlier fault-free run (certain cache hits) whose k-th read / replace fails with EIO; "
    "plus crash_enum plans walking the byte offsets of the cache writes of fixed runs. Non-trivial: history with >=1 "
    "cache hit or >=1 crash; distinct by (steps, crash points)."
)

ENUM_RUNS = [
    {"rows": ["CC(=O)O.CCO>>CC(=O)OCC", "CCO>>CCO"], "batch_size": 1},
    {"rows": ["CCBr.[OH-]>>CCO", "CC(=O)Cl.CN>>CC(=O)NC", "CCO>>CCO"], "batch_size": 2},
    {"rows": ["COC(C)=O>>OC(C)=O"], "batch_size": None},
    {"rows": ["[Na+].[Cl-]>>[Na+].[Cl-]", "CC=O>>CCO"], "batch_size": 1},
]


def _rowdict(r, alt):
    return {"reaction": r, "rxn": alt}


def gen_plan(base_seed, i, tier):
    rng = common.rng_for(base_seed, "C12", i)
    pool = common.pick_rows(rng, rng.randint(2, 5), {"mcs-based": 3, "rule-based": 3, "input-balanced": 1, "declined": 1, "mapped": 2})
    alts = common.pick_rows(rng, len(pool), {"rule-based": 3, "input-balanced": 1, "mcs-based": 1})
    two_cols = rng.random() < 0.35
    steps = []
    nsteps = rng.randint(2, 5)
    base_bs = rng.choice([None, 1, 2, len(pool)])
    for s in range(nsteps):
        idx = list(range(len(pool)))
        u = rng.random()
        if s > 0 and u < 0.25:
            rng.shuffle(idx)
        elif s > 0 and u < 0.45:
            idx = idx[: rng.randint(1, len(idx))]
        bs = base_bs if rng.random() < 0.7 else rng.choice([None, 1, 2, 3])
        step = {
            "op": "run",
            "rows": [(_rowdict(pool[j], alts[j]) if two_cols else pool[j]) for j in idx],
            "config": {
                "batch_size": bs,
                "n_jobs": rng.choice([1, 1, 4]),
                "threshold_mode": rng.choice(["zero", "zero", "zero", "seen_below", "seen_equal", "seen_above", "one"]) if s > 0 else rng.choice(["zero", "zero", "one"]),
                "reaction_col": (rng.choice(["reaction", "rxn"]) if s > 0 else "reaction") if two_cols else "reaction",
                "threshold_via": rng.choice(["ctor", "ctor", "assign"]),
                "remove_aam": rng.choice([True, True, True, False]),
                "extra_columns": rng.choice([None, None, None, ["id"], ["mcs", "carbon_balance_check"], ["reactants", "products"]]),
            },
            "sched_seed": rng.getrandbits(40),
        }
        if rng.random() < 0.35 and s < nsteps - 1:
            step["crash_frac"] = rng.choice([-1, 0.0, 1.0, "W-1", "1", round(rng.random(), 4), round(rng.random(), 4),
                                             "op:%.3f" % rng.random(), "op:%.3f" % rng.random(), "op:0.999", "wc:%.3f" % rng.random(), "wc:%.3f" % rng.random()])
        elif rng.random() < 0.12 and s < nsteps - 1:
            step["enospc_frac"] = round(rng.random(), 3)
        elif rng.random() < 0.12:
            step["eio"] = [rng.choice(["replace", "read", "open_write"]), rng.randint(0, 2)]
        steps.append(step)
        if rng.random() < 0.1 and s < nsteps - 1:
            steps.append({"op": "lose", "pick": rng.getrandbits(16)})
    plan = {"property": "C12", "kind": "history", "steps": steps}
    u = rng.random()
    if u < 0.2 and not two_cols:
        # one or two Balancer objects that stay alive over the whole history (built up front, configured through
        # their public attributes before each call, cache switched off and on again); no kills in these histories
        plan["objects"] = rng.choice([1, 2])
        for st in steps:
            if st["op"] == "run":
                st["obj"] = rng.randrange(plan["objects"])
                st["config"]["reaction_col"] = "reaction"
                st["config"].pop("threshold_via", None)
                for k in ("crash_frac", "enospc_frac", "eio"):
                    st.pop(k, None)
                if rng.random() < 0.2:
                    st["cache_off"] = True
        plan["steps"] = [st for st in steps if st["op"] == "run"]
    elif u < 0.3:
        # the same batch twice within one run
        for st in steps:
            if st["op"] == "run" and isinstance(st["rows"][0], str):
                st["rows"] = st["rows"] + st["rows"]
                st["config"]["batch_size"] = len(st["rows"]) // 2
    elif u < 0.45 and not two_cols:
        # malformed rows and pass-through columns (also with missing values) in cached runs
        from .c05 import POISON

        kinds = ["unparsable", "no_sep", "reagent_style", "two_sep", "empty_string"]
        as_dicts = rng.random() < 0.5
        slots = sorted(rng.sample(range(0, 6), 2))  # malformed rows sit at the same positions in every run ...
        vary = rng.random() < 0.6                   # ... but their content may differ from run to run
        fixed = [rng.choice(POISON[rng.choice(kinds)]) for _ in slots]
        for st in steps:
            if st["op"] != "run":
                continue
            rows = list(st["rows"])
            for j, pos in enumerate(slots):
                b = rng.choice(POISON[rng.choice(kinds)]) if vary else fixed[j]
                rows.insert(min(pos, len(rows)), b)
            if as_dicts:
                rows = [{"reaction": r, "tag": "t%d" % (H(r) % 97), "val": (None if H(r, "v") % 3 == 0 else H(r, "v") % 11)} for r in rows]
            st["rows"] = rows
    if "objects" not in plan and rng.random() < 0.2:
        # a disk fault placed where state is in flight: an earlier fault-free run is repeated unchanged (its entries are hits)
        # and the k-th read / replace of that repeat fails with EIO
        clean = [st for st in plan["steps"] if st["op"] == "run" and not any(k in st for k in ("crash_frac", "enospc_frac", "eio"))]
        if clean:
            st = common.clone(rng.choice(clean))
            st["eio"] = [rng.choice(["read", "read", "replace"]), rng.choice([0, 0, 1])]
            st["sched_seed"] = rng.getrandbits(40)
            plan["steps"].append(st)
    return plan


def extra_plans(tier, base_seed):
    plans = []
    if tier == "quick":
        sel = [(0, 16, 23), (3, 8, 17)]  # (run, chunks, stride)
    else:
        sel = [(r, 64, 1) for r in range(len(ENUM_RUNS))]
    for r, nch, stride in sel:
        for ch in range(nch):
            plans.append({"property": "C12", "kind": "crash_enum", "run": r, "chunk": [ch, nch], "stride": stride,
                          "sched_seed": H(base_seed, "crash_enum", r) % (1 << 40)})
    return plans


_uncached_memo = {}


_DEFAULT_COLUMNS = {}


def _run(rows, config, sched_seed, cache, balancer=None, **simkw):
    from simworld import runner

    sim = {"sched_seed": sched_seed}
    sim.update({k: v for k, v in simkw.items() if v is not None})
    cfg = {"batch_size": config.get("batch_size"), "n_jobs": config.get("n_jobs", 1), "threshold": config.get("threshold", 0),
           "reaction_col": config.get("reaction_col", "reaction"), "cache": cache}
    assign = {}
    if config.get("threshold_via") == "assign":
        assign["confidence_threshold"] = None  # value filled in by make_balancer
    if config.get("remove_aam") is False:
        assign["remove_aam"] = False
    if assign:
        cfg["assign"] = assign
    source = "dict" if rows and isinstance(rows[0], dict) else "list"
    spec = {"rows": rows, "source": source, "config": cfg, "sim": sim}
    if config.get("extra_columns"):
        spec["extra_columns"] = config["extra_columns"]  # Balancer.columns is public, mutable configuration
    if balancer is not None:
        # a long-lived object: everything is (re)configured through its public attributes
        balancer.columns = list(_DEFAULT_COLUMNS.setdefault(id(balancer), list(balancer.columns)))
        balancer.confidence_threshold = cfg["threshold"]
        balancer.batch_size = cfg["batch_size"]
        balancer.n_jobs = cfg["n_jobs"]
        balancer.remove_aam = config.get("remove_aam") is not False
        balancer.cache = bool(cache)
    return runner.run_once(spec, balancer=balancer)


def uncached(rows, config, sched_seed):
    key = repr((rows, sorted(config.items()), sched_seed))
    if key not in _uncached_memo:
        if len(_uncached_memo) > 4000:
            _uncached_memo.clear()
        _uncached_memo[key] = _run(rows, config, sched_seed, cache=False)
    return _uncached_memo[key]


def compare(res, ref, where):
    from simworld import oracles

    vs = []
    if ref["rows"] is None and ref["exc"]:
        if res["exc"] != ref["exc"]:
            vs.append(oracles.V("C12", "exception_differs", str(res["exc"]), "%s: cached run ended with %r, uncached run raises %r" % (where, res["exc"], ref["exc"])))
        return vs
    if res["rows"] is None:
        vs.append(oracles.V("C12", "cached_run_raised", str(res["exc"]), "%s: cached run raised %s (%s); the same run without cache returns %d rows" % (where, res["exc"], (res.get("exc_msg") or "")[:120], len(ref["rows"]))))
        return vs
    if len(res["rows"]) != len(ref["rows"]):
        vs.append(oracles.V("C12", "row_count_differs", "count", "%s: cached run returned %d rows, uncached %d" % (where, len(res["rows"]), len(ref["rows"]))))
        return vs
    for k, (a, b) in enumerate(zip(res["rows"], ref["rows"])):
        diff = oracles.rows_equal(a, b)
        if diff:
            vs.append(oracles.V("C12", "row_differs_from_uncached", ",".join(diff), "%s: row %d (%s) differs from the uncached run in %s: cached=%r uncached=%r" % (where, k, b["input_reaction"], diff, {c: a[c] for c in diff}, {c: b[c] for c in diff})))
            break
    if res.get("extra") != ref.get("extra"):
        ea, eb = res.get("extra") or [], ref.get("extra") or []
        k = next((i for i, (x, y) in enumerate(zip(ea, eb)) if x != y), 0)
        vs.append(oracles.V("C12", "selected_columns_differ_from_uncached", "columns", "%s: additionally selected columns of row %d differ: cached=%r uncached=%r" % (where, k, str(ea[k] if k < len(ea) else None)[:200], str(eb[k] if k < len(eb) else None)[:200])))
    if (res["stats"] or {}) != (ref["stats"] or {}):
        vs.append(oracles.V("C12", "stats_differ_from_uncached", "stats", "%s: stats %r != uncached %r" % (where, res["stats"], ref["stats"])))
    return vs


def _crash_budget(frac, W):
    if frac == -1:
        return None, 0  # crash before the first cache file is created
    if frac == "W-1":
        return max(W - 1, 0), None
    if frac == "1":
        return min(1, W), None
    return int(round(float(frac) * W)), None


def execute(plan):
    from simworld import seams

    if plan["kind"] == "crash_enum":
        return execute_enum(plan)
    FS = seams.FS
    FS.files.clear()
    FS.dirs.clear()
    out = {"violations": [], "nontrivial": None, "summary": [], "runs": 0}
    vs = []
    seen_conf = []
    hits = crashes = 0
    trace = []
    objects = []
    if plan.get("objects"):
        from simworld import runner

        runner.setup()
        objects = [runner.make_balancer({"n_jobs": 1, "threshold": 0, "cache": True}) for _ in range(plan["objects"])]
    for si, step in enumerate(plan["steps"]):
        if step["op"] == "lose":
            names = sorted(FS.files)
            if names:
                victim = names[step["pick"] % len(names)]
                del FS.files[victim]
                trace.append("lose %s" % victim[-14:])
            continue
        cfg = dict(step["config"])
        mode = cfg.pop("threshold_mode", "zero")
        c = seen_conf[H(step["sched_seed"], "c") % len(seen_conf)] if seen_conf else 0.5
        cfg["threshold"] = {"zero": 0, "one": 1.0, "seen_below": max(c - 0.001, 0.0), "seen_equal": c, "seen_above": min(c + 0.001, 1.0)}[mode]
        if "threshold" in step:
            cfg["threshold"] = step["threshold"]
        rows = step["rows"]
        ref = uncached(rows, cfg, step["sched_seed"])
        for r in ref["rows"] or []:
            if r["confidence"] is not None:
                seen_conf.append(r["confidence"])
        kw = {}
        if "crash_frac" in step or "enospc_frac" in step:
            snap = dict(FS.files), set(FS.dirs)
            dry = _run(rows, cfg, step["sched_seed"], cache=True, crash_op=10 ** 9, crash_wcall=10 ** 9)
            out["runs"] += 1
            W = dry.get("bytes_written", 0)
            nops = dry.get("fs_ops") or 0
            nwc = dry.get("fs_write_calls") or 0
            FS.files.clear(); FS.files.update(snap[0]); FS.dirs.clear(); FS.dirs.update(snap[1])
            if W > 0:
                if isinstance(step.get("crash_frac"), str) and step["crash_frac"].startswith("op:"):
                    # killed just before the k-th mutating file-system operation (open, close, rename, ...)
                    kw["crash_op"] = min(int(float(step["crash_frac"][3:]) * nops), max(nops - 1, 0))
                elif isinstance(step.get("crash_frac"), str) and step["crash_frac"].startswith("wc:"):
                    kw["crash_wcall"] = min(int(float(step["crash_frac"][3:]) * nwc), max(nwc - 1, 0))
                elif "crash_frac" in step:
                    kw["crash_after"], kw["crash_open"] = _crash_budget(step["crash_frac"], W)
                    if kw["crash_open"] is not None:
                        kw["crash_after"] = None
                else:
                    kw["enospc_after"] = int(step["enospc_frac"] * W)
        if "eio" in step:
            kw["eio"] = step["eio"]
        if "crash_abs" in step:
            kw = {{"open": "crash_open", "op": "crash_op", "wcall": "crash_wcall"}.get(step["crash_abs"][0], "crash_after"): step["crash_abs"][1]}
        bal = objects[step["obj"]] if objects and "obj" in step else None
        res = _run(rows, cfg, step["sched_seed"], cache=not step.get("cache_off"), balancer=bal, **kw)
        out["runs"] += 1
        out["summary"].append(common.run_summary(res))
        hits += res["probes"].get("cache_file_reads", 0)
        where = "step %d%s (batch_size=%s threshold=%r col=%s%s)" % (si, " on long-lived Balancer #%d%s" % (step["obj"], ", cache off" if step.get("cache_off") else "") if bal is not None else "", cfg.get("batch_size"), cfg["threshold"], cfg.get("reaction_col"), " after %s" % "; ".join(trace[-3:]) if trace else "")
        if res["crashed"]:
            crashes += 1
            trace.append("step %d killed at %s" % (si, kw))
            continue
        trace.append("step %d ok" % si)
        vs += compare(res, ref, where)
    out["violations"] = vs
    if hits or crashes:
        out["nontrivial"] = "%016x" % H(plan["steps"])
    out["sample"] = {"steps": [{k: (v if k != "rows" else [x if isinstance(x, str) else x for x in v]) for k, v in s.items()} for s in plan["steps"]], "cache_hits": hits, "crashes": crashes}
    out["summary"].append({"fired": {"cache_hit": hits}, "probes": {}, "simtime": 0.0, "events": 0, "interleave": None, "par_tasks": 0, "zombies": 0, "digest": None})
    return out


def execute_enum(plan):
    from simworld import seams

    FS = seams.FS
    spec = ENUM_RUNS[plan["run"]]
    cfg = {"batch_size": spec["batch_size"], "n_jobs": 1, "threshold": 0, "reaction_col": "reaction"}
    rows = spec["rows"]
    seed = plan["sched_seed"]
    out = {"violations": [], "nontrivial": None, "summary": [], "runs": 0}
    ref = uncached(rows, cfg, seed)
    FS.files.clear(); FS.dirs.clear()
    dry = _run(rows, cfg, seed, cache=True, crash_op=10 ** 9, crash_wcall=10 ** 9)
    W = dry.get("bytes_written", 0)
    nwc = dry.get("fs_write_calls") or 0
    ch, nch = plan["chunk"]
    stride = plan.get("stride", 1)
    wstep = 1 if (stride == 1 or nwc <= 48) else (nwc + 47) // 48
    points = [("op", k) for k in range(dry.get("fs_ops") or 0)] + [("wcall", k) for k in range(0, nwc, wstep)] + [("byte", n) for n in sorted(set(list(range(0, W + 1, stride)) + [1, W - 1, W]))]
    nontriv = []
    vs = []
    for pi, (kind, n) in enumerate(points):
        if pi % nch != ch:
            continue
        FS.files.clear(); FS.dirs.clear()
        kw = {"crash_op": n} if kind == "op" else ({"crash_wcall": n} if kind == "wcall" else {"crash_after": n})
        r1 = _run(rows, cfg, seed, cache=True, **kw)
        out["runs"] += 1
        out["summary"].append(common.run_summary(r1))
        state = {k[-12:]: len(v) for k, v in FS.files.items()}
        r2 = _run(rows, cfg, seed, cache=True)
        out["runs"] += 1
        out["summary"].append(common.run_summary(r2))
        where = "resume after kill at %s %d of %d (files left: %s)" % (kind, n, W, state)
        if not r1["crashed"]:
            v = compare(r1, ref, "run with crash point %s %d beyond its writes" % (kind, n))
        else:
            v = []
            nontriv.append("%016x" % H(plan["run"], kind, n))
        v += compare(r2, ref, where)
        for x in v:
            x["subplan"] = {"property": "C12", "kind": "history", "steps": [
                dict({"op": "run", "rows": rows, "config": dict(cfg, threshold_mode="zero"), "sched_seed": seed}, **({"crash_abs": [kind, n]})),
                {"op": "run", "rows": rows, "config": dict(cfg, threshold_mode="zero"), "sched_seed": seed}]}
        vs += v
        if len(vs) > 4:
            break
    out["violations"] = vs
    out["nontrivial_many"] = nontriv
    out["sample"] = {"crash_enum_run": spec, "bytes_written_by_run": W, "points_in_chunk": len(nontriv), "chunk": plan["chunk"], "stride": stride}
    return out


def shrink(plan):
    if plan["kind"] != "history":
        return
    steps = plan["steps"]
    if len(steps) > 1:
        for j in range(len(steps)):
            p = common.clone(plan)
            del p["steps"][j]
            yield p
    for j, s in enumerate(steps):
        if s["op"] != "run":
            continue
        if len(s["rows"]) > 1:
            for k in range(len(s["rows"])):
                p = common.clone(plan)
                victim = p["steps"][j]["rows"][k]
                for t in p["steps"]:
                    if t["op"] == "run" and victim in t["rows"] and len(t["rows"]) > 1:
                        t["rows"].remove(victim)
                yield p
        for key in ("crash_frac", "enospc_frac", "eio"):
            if key in s:
                p = common.clone(plan)
                del p["steps"][j][key]
                yield p
        if s["config"].get("n_jobs") != 1:
            p = common.clone(plan)
            p["steps"][j]["config"]["n_jobs"] = 1
            yield p
        if s["config"].get("batch_size") is not None:
            p = common.clone(plan)
            for t in p["steps"]:
                if t["op"] == "run":
                    t["config"]["batch_size"] = None
            yield p
