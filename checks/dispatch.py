"""Property id -> check module. `execute` is what the fan-out workers call."""

import importlib

MODULES = {
    "C01": "checks.rowprops",
    "C02": "checks.rowprops",
    "C03": "checks.rowprops",
    "C04": "checks.rowprops",
    "C18": "checks.rowprops",
    "C05": "checks.c05",
    "C06": "checks.c06",
    "C10": "checks.c10",
    "C11": "checks.c11",
    "C12": "checks.c12",
    "C13": "checks.c13",
    "C19": "checks.c19",
}


def module_for(prop):
    return importlib.import_module(MODULES[prop])


def gen_plan(prop, base_seed, i, tier):
    from . import common

    common.CURRENT_TIER = tier
    m = module_for(prop)
    if MODULES[prop] == "checks.rowprops":
        return m.gen_plan(prop, base_seed, i, tier)
    return m.gen_plan(base_seed, i, tier)


def nplans(prop, tier):
    m = module_for(prop)
    n = m.NPLANS
    if prop in n:
        n = n[prop]
    return n[tier]


def rule(prop):
    m = module_for(prop)
    r = getattr(m, "RULES", None)
    if r and prop in r:
        return r[prop]
    return m.RULE


_PRIOR = []  # plans this worker process has executed before (process-global state in the code under
             # test, e.g. a module-level cache, makes a run depend on them)


def execute(plan):
    import time

    t = time.time()
    m = module_for(plan["property"])
    from simworld import runner

    runner.fresh_state()
    out = m.execute(plan)
    out["wall"] = time.time() - t
    out["prior"] = list(_PRIOR)
    if plan.get("_idx") is not None:
        _PRIOR.append(plan["_idx"])
    return out


def execute_seq(arg):
    """Run a sequence of plans in this (fresh) process; the result is that of the last one."""
    out = None
    for p in arg["plans"]:
        out = execute(p)
    return out


def shrink(plan):
    return module_for(plan["property"]).shrink(plan)


def explicit_faults(plan, result):
    f = getattr(module_for(plan["property"]), "explicit_faults", None)
    return f(plan, result) if f else None


def extra_plans(prop, tier, base_seed):
    """Deterministic plans that are always part of a tier (enumerations, known-finding probes)."""
    f = getattr(module_for(prop), "extra_plans", None)
    if not f:
        return []
    if MODULES[prop] == "checks.rowprops":
        return list(f(prop, tier, base_seed))
    return list(f(tier, base_seed))
